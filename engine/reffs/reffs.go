// Package reffs is the reference file system: the boring in-memory model that
// the real server's replies are compared with (DESIGN.md 3.5 and Appendix A).
// Handles and file ids are bound from the implementation's replies.
package reffs

import (
	"bytes"
	"encoding/hex"
	"fmt"
	"sort"
	"strings"

	"verif/fsx"
)

const (
	REG = 1
	DIR = 2
	LNK = 5
)

const BS = 4096

type Obj struct {
	ID       int
	Kind     int
	Parent   int
	Children map[string]int
	Blocks   map[uint64][]byte // block index -> 4096 bytes (absent = zeros); slices are immutable
	Size     uint64
	Target   string
	FH       string // hex
	Fileid   uint64
	Mtime    uint32 // client-set seconds, 0 = server-chosen
	Atime    uint32
}

type Limits struct {
	NameMax     uint64
	MaxFileSize uint64
	WtMax       uint64
}

var DefaultLimits = Limits{NameMax: 112, MaxFileSize: (8 + 512*512) * 4096, WtMax: 4096 * 511}

type FS struct {
	Objs map[int]*Obj
	Root int
	Next int
	ByFH map[string]int  // live handles
	Seen map[string]bool // every handle ever issued
	Lim  Limits
	// options
	StrictStale       bool // dead handle must give STALE/BADHANDLE (C08); otherwise any error
	AllowImplFail     bool // NOSPC / SERVERFAULT / IO are accepted as implementation-only failures (no change)
	CheckFsinfoHandle bool
	ids               map[uint64]int // file id -> live object (index, rebuilt on demand)
}

func (fs *FS) fileids() map[uint64]int {
	if fs.ids == nil {
		fs.ids = make(map[uint64]int, len(fs.Objs))
		for id, o := range fs.Objs {
			fs.ids[o.Fileid] = id
		}
	}
	return fs.ids
}

func New() *FS {
	fs := &FS{Objs: map[int]*Obj{}, ByFH: map[string]int{}, Seen: map[string]bool{}, Lim: DefaultLimits, Next: 2, Root: 1}
	rootfh := hex.EncodeToString(fsx.RootFH())
	fs.Objs[1] = &Obj{ID: 1, Kind: DIR, Parent: 1, Children: map[string]int{}, FH: rootfh, Fileid: 1}
	fs.ByFH[rootfh] = 1
	fs.Seen[rootfh] = true
	return fs
}

func (fs *FS) Clone() *FS {
	c := &FS{Objs: make(map[int]*Obj, len(fs.Objs)), Root: fs.Root, Next: fs.Next, ByFH: make(map[string]int, len(fs.ByFH)),
		Seen: make(map[string]bool, len(fs.Seen)), Lim: fs.Lim, StrictStale: fs.StrictStale, AllowImplFail: fs.AllowImplFail, CheckFsinfoHandle: fs.CheckFsinfoHandle}
	for id, o := range fs.Objs {
		n := *o
		if o.Children != nil {
			n.Children = make(map[string]int, len(o.Children))
			for k, v := range o.Children {
				n.Children[k] = v
			}
		}
		if o.Blocks != nil {
			n.Blocks = make(map[uint64][]byte, len(o.Blocks))
			for k, v := range o.Blocks {
				n.Blocks[k] = v
			}
		}
		c.Objs[id] = &n
	}
	for k, v := range fs.ByFH {
		c.ByFH[k] = v
	}
	for k, v := range fs.Seen {
		c.Seen[k] = v
	}
	return c
}

func (fs *FS) lookupFH(h []byte) *Obj {
	id, ok := fs.ByFH[hex.EncodeToString(h)]
	if !ok {
		return nil
	}
	return fs.Objs[id]
}

// ReadAt returns the model's bytes [off, off+n) clipped to the size.
func (o *Obj) ReadAt(off, n uint64) []byte {
	if off >= o.Size {
		return []byte{}
	}
	if n > o.Size-off {
		n = o.Size - off
	}
	out := make([]byte, n)
	for p := off; p < off+n; {
		bi := p / BS
		bo := p % BS
		l := BS - bo
		if l > off+n-p {
			l = off + n - p
		}
		if b, ok := o.Blocks[bi]; ok {
			copy(out[p-off:], b[bo:bo+l])
		}
		p += l
	}
	return out
}

func (o *Obj) writeAt(off uint64, data []byte) {
	if o.Blocks == nil {
		o.Blocks = map[uint64][]byte{}
	}
	for p := uint64(0); p < uint64(len(data)); {
		bi := (off + p) / BS
		bo := (off + p) % BS
		l := BS - bo
		if l > uint64(len(data))-p {
			l = uint64(len(data)) - p
		}
		nb := make([]byte, BS)
		if b, ok := o.Blocks[bi]; ok {
			copy(nb, b)
		}
		copy(nb[bo:], data[p:p+l])
		o.Blocks[bi] = nb
		p += l
	}
	if off+uint64(len(data)) > o.Size {
		o.Size = off + uint64(len(data))
	}
}

func (o *Obj) truncate(sz uint64) {
	if sz < o.Size {
		for bi, b := range o.Blocks {
			if bi*BS >= sz {
				delete(o.Blocks, bi)
			} else if (bi+1)*BS > sz {
				nb := make([]byte, BS)
				copy(nb, b[:sz-bi*BS])
				o.Blocks[bi] = nb
			}
		}
	}
	o.Size = sz
}

func isImplFail(st uint32) bool {
	return st == 28 || st == 10006 || st == 5 // NOSPC, SERVERFAULT, IO
}

func isStale(st uint32) bool { return st == fsx.StStale || st == fsx.StBadHandle }

type Mismatch struct {
	Rule string // short stable identifier of the rule that failed
	Msg  string
}

func (m *Mismatch) Error() string { return m.Rule + ": " + m.Msg }

func mm(rule, f string, a ...interface{}) *Mismatch {
	return &Mismatch{Rule: rule, Msg: fmt.Sprintf(f, a...)}
}

func (fs *FS) checkAttr(o *Obj, a *fsx.Attr, what string) *Mismatch {
	if a == nil {
		return nil
	}
	if int(a.Type) != o.Kind {
		return mm(what+"-attr-type", "type %d, reference %d", a.Type, o.Kind)
	}
	if o.Kind != DIR && a.Size != o.Size {
		return mm(what+"-attr-size", "size %d, reference %d", a.Size, o.Size)
	}
	if a.Fileid != o.Fileid {
		return mm(what+"-attr-fileid", "fileid %d, reference object has %d", a.Fileid, o.Fileid)
	}
	if o.Mtime != 0 && a.Mtime[0] != o.Mtime {
		return mm(what+"-attr-mtime", "mtime %d, client had set %d", a.Mtime[0], o.Mtime)
	}
	if o.Atime != 0 && a.Atime[0] != o.Atime {
		return mm(what+"-attr-atime", "atime %d, client had set %d", a.Atime[0], o.Atime)
	}
	return nil
}

// mustFail / mustOK helpers
func (fs *FS) mustFail(r *fsx.Reply, rule string, stale bool) *Mismatch {
	if r.OK() {
		return mm(rule, "request succeeded; the reference file system says it cannot be performed")
	}
	if stale && fs.StrictStale && !isStale(r.Status) {
		return mm(rule+"-status", "dead handle answered with status %d, not STALE/BADHANDLE", r.Status)
	}
	return nil
}

func nameIllegal(n string) bool { return n == "." || n == ".." }
func nameOdd(n string) bool {
	return n == "" || strings.Contains(n, "/") || strings.Contains(n, "\x00")
}

func (fs *FS) kill(o *Obj) {
	if fs.ids != nil && fs.ids[o.Fileid] == o.ID {
		delete(fs.ids, o.Fileid)
	}
	delete(fs.ByFH, o.FH)
	delete(fs.Objs, o.ID)
}

func (fs *FS) isAncestor(a, b *Obj) bool { // a is b or an ancestor of b
	for {
		if b.ID == a.ID {
			return true
		}
		if b.ID == fs.Root {
			return false
		}
		b = fs.Objs[b.Parent]
	}
}

// Step checks reply r of operation o (issued with handles h, h2) against the
// model and applies the operation.  implFail reports an accepted
// implementation-only failure (the model is unchanged).
func (fs *FS) Step(o fsx.Op, h, h2 []byte, r *fsx.Reply) (implFail bool, err *Mismatch) {
	obj := fs.lookupFH(h)
	k := o.K
	implOK := func() bool {
		if !r.OK() && fs.AllowImplFail && isImplFail(r.Status) {
			implFail = true
			return true
		}
		return false
	}
	switch k {
	case "NULL":
		return false, nil
	case "MKNOD", "LINK", "FSSTAT", "CREATEX":
		return false, fs.mustFail(r, k+"-unsupported", false)
	case "GETATTR":
		if obj == nil {
			return false, fs.mustFail(r, k+"-dead", true)
		}
		if !r.OK() {
			return false, mm(k+"-refused", "status %d for a live handle", r.Status)
		}
		return false, fs.checkAttr(obj, r.Attr, k)
	case "ACCESS", "FSINFO", "PATHCONF":
		if obj == nil {
			if k != "ACCESS" && !fs.CheckFsinfoHandle {
				return false, nil
			}
			return false, fs.mustFail(r, k+"-dead", true)
		}
		if !r.OK() {
			return false, mm(k+"-refused", "status %d for a live handle", r.Status)
		}
		return false, nil
	case "SETATTR":
		if obj == nil {
			return false, fs.mustFail(r, k+"-dead", true)
		}
		if !o.NoSize && obj.Kind != REG {
			return false, fs.mustFail(r, k+"-size-on-non-file", false)
		}
		if !o.NoSize && o.Size > fs.Lim.MaxFileSize {
			return false, fs.mustFail(r, k+"-size-beyond-max", false)
		}
		if !r.OK() {
			if implOK() {
				return true, nil
			}
			return false, mm(k+"-refused", "status %d", r.Status)
		}
		if !o.NoSize {
			obj.truncate(o.Size)
		}
		if o.Mtime != 0 {
			obj.Mtime = o.Mtime
		}
		if o.Atime != 0 {
			obj.Atime = o.Atime
		}
		if o.STime&1 != 0 {
			obj.Mtime = 0 // the server's time: not predicted
		}
		if o.STime&2 != 0 {
			obj.Atime = 0
		}
		return false, fs.checkAttr(obj, r.Attr, k)
	case "LOOKUP":
		if obj == nil {
			return false, fs.mustFail(r, k+"-dead", true)
		}
		if obj.Kind != DIR {
			return false, fs.mustFail(r, k+"-notdir", false)
		}
		var t *Obj
		switch o.N {
		case ".":
			t = obj
		case "..":
			t = fs.Objs[obj.Parent]
		default:
			if id, ok := obj.Children[o.N]; ok {
				t = fs.Objs[id]
			}
		}
		if t == nil {
			return false, fs.mustFail(r, k+"-absent", false)
		}
		if !r.OK() {
			return false, mm(k+"-refused", "status %d for existing name %q", r.Status, o.N)
		}
		if hex.EncodeToString(r.FH) != t.FH {
			return false, mm(k+"-handle", "returned handle %x, the object created there has %s", r.FH, t.FH)
		}
		return false, fs.checkAttr(t, r.Attr, k)
	case "READLINK":
		if obj == nil {
			return false, fs.mustFail(r, k+"-dead", true)
		}
		if obj.Kind != LNK {
			return false, fs.mustFail(r, k+"-notlink", false)
		}
		if !r.OK() {
			return false, mm(k+"-refused", "status %d", r.Status)
		}
		if r.Target != obj.Target {
			return false, mm(k+"-target", "target %q, reference %q", r.Target, obj.Target)
		}
		return false, nil
	case "READ":
		if obj == nil {
			return false, fs.mustFail(r, k+"-dead", true)
		}
		if obj.Kind != REG {
			return false, fs.mustFail(r, k+"-notfile", false)
		}
		if !r.OK() {
			if implOK() {
				return true, nil
			}
			return false, mm(k+"-refused", "status %d", r.Status)
		}
		want := obj.ReadAt(o.Off, o.Cnt)
		if fs.AllowImplFail && len(r.Data) < len(want) && !r.Eof && bytes.Equal(r.Data, want[:len(r.Data)]) {
			// short read: materialising a hole needed a block and there was none (implementation-only failure)
			return true, nil
		}
		if !bytes.Equal(r.Data, want) {
			return false, mm(k+"-data", "%s", diffBytes(r.Data, want, o.Off))
		}
		if int(r.Count) != len(r.Data) {
			return false, mm(k+"-count", "count %d but %d bytes", r.Count, len(r.Data))
		}
		if r.Eof && o.Off+uint64(len(r.Data)) < obj.Size {
			return false, mm(k+"-eof", "eof reported at %d, size %d", o.Off+uint64(len(r.Data)), obj.Size)
		}
		return false, nil
	case "WRITE":
		if obj == nil {
			return false, fs.mustFail(r, k+"-dead", true)
		}
		if obj.Kind != REG {
			return false, fs.mustFail(r, k+"-notfile", false)
		}
		data := o.Data()
		if o.Off+o.Cnt < o.Off || o.Off+o.Cnt > fs.Lim.MaxFileSize {
			return false, fs.mustFail(r, k+"-beyond-maxfilesize", false)
		}
		if o.Cnt > fs.Lim.WtMax {
			return false, fs.mustFail(r, k+"-beyond-wtmax", false)
		}
		if !r.OK() {
			if uint64(len(data)) != o.Cnt {
				return false, nil // count disagrees with data: refusing is fine
			}
			if implOK() {
				return true, nil
			}
			return false, mm(k+"-refused", "status %d for a write the reference accepts", r.Status)
		}
		n := uint64(r.Count)
		lim := o.Cnt
		if uint64(len(data)) < lim {
			lim = uint64(len(data))
		}
		if n > lim {
			return false, mm(k+"-count", "count %d exceeds what was supplied/asked (%d)", n, lim)
		}
		if n == 0 && lim > 0 {
			return false, mm(k+"-count", "successful write of 0 of %d bytes", lim)
		}
		if n < lim && uint64(len(data)) == o.Cnt && !fs.AllowImplFail {
			return false, mm(k+"-short", "wrote %d of %d bytes (truncated write)", n, lim)
		}
		if n > 0 {
			obj.writeAt(o.Off, data[:n])
		}
		if r.Committed < o.Stable {
			return false, mm(k+"-committed", "committed %d weaker than requested %d", r.Committed, o.Stable)
		}
		return false, fs.checkAttr(obj, r.Attr, k)
	case "COMMIT":
		if obj == nil {
			return false, fs.mustFail(r, k+"-dead", true)
		}
		if obj.Kind != REG {
			return false, fs.mustFail(r, k+"-notfile", false)
		}
		if !r.OK() {
			if o.Off+o.Cnt > obj.Size {
				return false, nil // range past end of file: either outcome
			}
			if implOK() {
				return true, nil
			}
			return false, mm(k+"-refused", "status %d", r.Status)
		}
		return false, nil
	case "CREATE", "MKDIR", "SYMLINK":
		if obj == nil {
			return false, fs.mustFail(r, k+"-dead", true)
		}
		if obj.Kind != DIR {
			return false, fs.mustFail(r, k+"-notdir", false)
		}
		if nameIllegal(o.N) {
			return false, fs.mustFail(r, k+"-dot", false)
		}
		if uint64(len(o.N)) > fs.Lim.NameMax {
			return false, fs.mustFail(r, k+"-name-too-long", false)
		}
		if id, ok := obj.Children[o.N]; ok {
			if k == "CREATE" && o.Mode == 0 {
				if r.OK() && hex.EncodeToString(r.FH) != fs.Objs[id].FH {
					return false, mm(k+"-unchecked-existing", "UNCHECKED create of an existing name returned a different object")
				}
				return false, nil
			}
			return false, fs.mustFail(r, k+"-exists", false)
		}
		if !r.OK() {
			if nameOdd(o.N) {
				return false, nil
			}
			if implOK() {
				return true, nil
			}
			return false, mm(k+"-refused", "status %d for a legal new name of length %d", r.Status, len(o.N))
		}
		fhs := hex.EncodeToString(r.FH)
		if r.FH == nil {
			return false, mm(k+"-nohandle", "no handle returned")
		}
		if fs.Seen[fhs] {
			return false, mm(k+"-handle-reused", "handle %s was issued before (for another object)", fhs)
		}
		n := &Obj{ID: fs.Next, Parent: obj.ID, FH: fhs}
		fs.Next++
		switch k {
		case "CREATE":
			n.Kind = REG
		case "MKDIR":
			n.Kind = DIR
			n.Children = map[string]int{}
		case "SYMLINK":
			n.Kind = LNK
			n.Target = o.Target
			n.Size = uint64(len(o.Target))
		}
		if r.Attr != nil {
			n.Fileid = r.Attr.Fileid
			if _, dup := fs.fileids()[n.Fileid]; dup {
				return false, mm(k+"-fileid-dup", "new object got file id %d which a live object has", n.Fileid)
			}
			fs.fileids()[n.Fileid] = n.ID
		}
		fs.Objs[n.ID] = n
		fs.ByFH[fhs] = n.ID
		fs.Seen[fhs] = true
		obj.Children[o.N] = n.ID
		return false, fs.checkAttr(n, r.Attr, k)
	case "REMOVE", "RMDIR":
		if obj == nil {
			return false, fs.mustFail(r, k+"-dead", true)
		}
		if obj.Kind != DIR {
			return false, fs.mustFail(r, k+"-notdir", false)
		}
		if nameIllegal(o.N) {
			return false, fs.mustFail(r, k+"-dot", false)
		}
		id, ok := obj.Children[o.N]
		if !ok {
			return false, fs.mustFail(r, k+"-absent", false)
		}
		t := fs.Objs[id]
		if t.Kind == DIR && len(t.Children) > 0 {
			return false, fs.mustFail(r, k+"-notempty", false)
		}
		if k == "RMDIR" && t.Kind != DIR {
			return false, fs.mustFail(r, k+"-notdir-target", false)
		}
		if !r.OK() {
			if k == "REMOVE" && t.Kind == DIR {
				return false, nil // REMOVE of an empty directory: either outcome
			}
			if implOK() {
				return true, nil
			}
			return false, mm(k+"-refused", "status %d", r.Status)
		}
		delete(obj.Children, o.N)
		fs.kill(t)
		return false, nil
	case "RENAME":
		obj2 := fs.lookupFH(h2)
		if obj == nil || obj2 == nil {
			return false, fs.mustFail(r, k+"-dead", true)
		}
		if obj.Kind != DIR || obj2.Kind != DIR {
			return false, fs.mustFail(r, k+"-notdir", false)
		}
		if nameIllegal(o.N) || nameIllegal(o.N2) {
			return false, fs.mustFail(r, k+"-dot", false)
		}
		sid, ok := obj.Children[o.N]
		if !ok {
			return false, fs.mustFail(r, k+"-absent", false)
		}
		if uint64(len(o.N2)) > fs.Lim.NameMax {
			return false, fs.mustFail(r, k+"-name-too-long", false)
		}
		src := fs.Objs[sid]
		var dst *Obj
		if did, ok := obj2.Children[o.N2]; ok {
			dst = fs.Objs[did]
		}
		if dst != nil && dst.ID == src.ID {
			if !r.OK() {
				return false, mm(k+"-self-refused", "rename onto itself refused with status %d", r.Status)
			}
			return false, nil
		}
		either := false
		if dst != nil {
			if (dst.Kind == DIR) != (src.Kind == DIR) {
				return false, fs.mustFail(r, k+"-kind-mismatch", false)
			}
			if dst.Kind != src.Kind {
				either = true // file over symlink or vice versa: implementation-defined, both outcomes accepted
			}
			if dst.Kind == DIR && len(dst.Children) > 0 {
				return false, fs.mustFail(r, k+"-target-notempty", false)
			}
		}
		if src.Kind == DIR && fs.isAncestor(src, obj2) {
			return false, fs.mustFail(r, k+"-into-own-subtree", false)
		}
		if !r.OK() {
			if nameOdd(o.N2) || either {
				return false, nil
			}
			if implOK() {
				return true, nil
			}
			return false, mm(k+"-refused", "status %d", r.Status)
		}
		if dst != nil {
			fs.kill(dst)
		}
		delete(obj.Children, o.N)
		obj2.Children[o.N2] = src.ID
		src.Parent = obj2.ID
		return false, nil
	case "READDIR", "READDIRPLUS":
		if obj == nil {
			return false, fs.mustFail(r, k+"-dead", true)
		}
		if obj.Kind != DIR {
			return false, fs.mustFail(r, k+"-notdir", false)
		}
		if !r.OK() {
			return false, mm(k+"-refused", "status %d", r.Status)
		}
		seen := map[string]bool{}
		for _, e := range r.Ents {
			if seen[e.Name] {
				return false, mm(k+"-dup", "entry %q twice in one reply", e.Name)
			}
			seen[e.Name] = true
			var t *Obj
			switch e.Name {
			case ".":
				t = obj
			case "..":
				t = fs.Objs[obj.Parent]
			default:
				if id, ok := obj.Children[e.Name]; ok {
					t = fs.Objs[id]
				}
			}
			if t == nil {
				return false, mm(k+"-phantom", "entry %q is not in the directory", e.Name)
			}
			if e.Fileid != t.Fileid {
				return false, mm(k+"-fileid", "entry %q has file id %d, object has %d", e.Name, e.Fileid, t.Fileid)
			}
			if k == "READDIRPLUS" {
				if e.FH != nil && hex.EncodeToString(e.FH) != t.FH {
					return false, mm(k+"-handle", "entry %q handle %x, object has %s", e.Name, e.FH, t.FH)
				}
				if m := fs.checkAttr(t, e.Attr, k); m != nil {
					return false, m
				}
			}
		}
		return false, nil
	}
	return false, mm("unknown-op", "%s", k)
}

func diffBytes(got, want []byte, off uint64) string {
	if len(got) != len(want) {
		return fmt.Sprintf("read %d bytes, reference has %d", len(got), len(want))
	}
	for i := range got {
		if got[i] != want[i] {
			j := i
			for j < len(got) && got[j] != want[j] {
				j++
			}
			return fmt.Sprintf("bytes differ at file offset %d..%d: read %#x, reference %#x", off+uint64(i), off+uint64(j), got[i], want[i])
		}
	}
	return ""
}

// ---- dumps ----

// Dump of the model: path -> node.  Data digest via fsx.DataDigest over the same probe set.
func (fs *FS) Dump(p *fsx.Probe) map[string]fsx.Node {
	out := map[string]fsx.Node{}
	var walk func(path string, o *Obj)
	walk = func(path string, o *Obj) {
		n := fsx.Node{Kind: o.Kind, Size: o.Size, FH: o.FH, Fileid: o.Fileid, Target: o.Target, Mtime: o.Mtime, Atime: o.Atime}
		if o.Kind == DIR {
			n.Size = 0
		}
		if o.Kind == REG {
			n.Data = p.Digest(o.Size, func(off, cnt uint64) []byte { return o.ReadAt(off, cnt) })
		}
		out[path] = n
		if o.Kind == DIR {
			var names []string
			for nm := range o.Children {
				names = append(names, nm)
			}
			sort.Strings(names)
			for _, nm := range names {
				walk(path+"/"+nm, fs.Objs[o.Children[nm]])
			}
		}
	}
	walk("", fs.Objs[fs.Root])
	return out
}

// DiffDumps compares an implementation dump with a model dump.
func DiffDumps(impl, model map[string]fsx.Node, withHandles bool) string {
	var paths []string
	for p := range impl {
		paths = append(paths, p)
	}
	for p := range model {
		if _, ok := impl[p]; !ok {
			paths = append(paths, p)
		}
	}
	sort.Strings(paths)
	for _, p := range paths {
		a, okA := impl[p]
		b, okB := model[p]
		disp := p
		if disp == "" {
			disp = "/"
		}
		switch {
		case !okA:
			return fmt.Sprintf("%s missing (reference has kind %d size %d)", disp, b.Kind, b.Size)
		case !okB:
			return fmt.Sprintf("%s present (kind %d size %d) but not in the reference", disp, a.Kind, a.Size)
		case a.Kind != b.Kind:
			return fmt.Sprintf("%s kind %d, reference %d", disp, a.Kind, b.Kind)
		case a.Kind != DIR && a.Size != b.Size:
			return fmt.Sprintf("%s size %d, reference %d", disp, a.Size, b.Size)
		case a.Data != b.Data:
			return fmt.Sprintf("%s content differs from reference (%s vs %s)", disp, a.Data, b.Data)
		case a.Target != b.Target:
			return fmt.Sprintf("%s target %q, reference %q", disp, a.Target, b.Target)
		case withHandles && a.FH != b.FH:
			return fmt.Sprintf("%s handle %s, reference %s", disp, a.FH, b.FH)
		case withHandles && a.Fileid != b.Fileid:
			return fmt.Sprintf("%s fileid %d, reference %d", disp, a.Fileid, b.Fileid)
		case b.Mtime != 0 && a.Mtime != b.Mtime:
			return fmt.Sprintf("%s mtime %d, reference %d", disp, a.Mtime, b.Mtime)
		case b.Atime != 0 && a.Atime != b.Atime:
			return fmt.Sprintf("%s atime %d, reference %d", disp, a.Atime, b.Atime)
		}
	}
	return ""
}
