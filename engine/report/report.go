// Package report collects what a check covered and found, applies the
// known-findings file, writes the evidence file and produces the exit status.
package report

import (
	"crypto/sha256"
	"encoding/hex"
	"encoding/json"
	"fmt"
	"os"
	"path/filepath"
	"sort"
	"strings"
	"time"
)

type Violation struct {
	Property string      `json:"property"`
	Sig      string      `json:"signature"` // stable identity: rule + minimal failing input / call site
	Detail   string      `json:"detail"`
	Replay   interface{} `json:"replay,omitempty"`
}

type Known struct {
	Property  string `json:"property"`
	Signature string `json:"signature"`
	WhatFails string `json:"what_fails"`
	Status    string `json:"status"` // "known" | "fixed"
	Commit    string `json:"commit,omitempty"`
}

type Report struct {
	Property string
	Tier     string
	Seed     int64
	Root     string // /verif
	start    time.Time

	Counts      map[string]int64
	Samples     []interface{}
	Rule        string
	Exhaustive  bool
	Notes       []string
	Assumptions []string
	Extra       map[string]interface{}
	Only        map[string]bool // if set, violations of other properties are dropped (they are another check's business)
	nontrivial  map[string]bool
	viol        map[string]*Violation
	violOrder   []string
}

func New(property, tier, root string) *Report {
	seed := int64(0)
	fmt.Sscan(os.Getenv("VERIF_SEED"), &seed)
	return &Report{Property: property, Tier: tier, Root: root, Seed: seed, start: time.Now(),
		Counts: map[string]int64{}, Extra: map[string]interface{}{}, nontrivial: map[string]bool{},
		viol: map[string]*Violation{}, Exhaustive: true}
}

func (r *Report) Add(key string, n int64) { r.Counts[key] += n }

// Distinct records a distinct non-trivial case by its key.
func (r *Report) Distinct(key string) { r.nontrivial[key] = true }
func (r *Report) NDistinct() int      { return len(r.nontrivial) }

func (r *Report) Sample(s interface{}) {
	if len(r.Samples) < 12 {
		r.Samples = append(r.Samples, s)
	}
}

func (r *Report) Note(f string, a ...interface{}) { r.Notes = append(r.Notes, fmt.Sprintf(f, a...)) }

// Violate records a violation (deduplicated by signature; the first one of a
// signature is kept - searches are ordered simplest-first).
func (r *Report) Violate(v Violation) {
	if v.Property == "" {
		v.Property = r.Property
	}
	if r.Only != nil && !r.Only[v.Property] {
		return
	}
	k := v.Property + "|" + v.Sig
	if _, ok := r.viol[k]; ok {
		return
	}
	vv := v
	r.viol[k] = &vv
	r.violOrder = append(r.violOrder, k)
}

func (r *Report) NViolations() int { return len(r.viol) }

func LoadKnown(root string) []Known {
	b, err := os.ReadFile(filepath.Join(root, "known_findings.json"))
	if err != nil {
		return nil
	}
	var ks []Known
	if err := json.Unmarshal(b, &ks); err != nil {
		fmt.Fprintf(os.Stderr, "known_findings.json: %v\n", err)
		os.Exit(2)
	}
	return ks
}

// Finish writes the evidence file, prints KNOWN-FINDING / VIOLATION lines and
// returns the exit status.
func (r *Report) Finish() int {
	known := LoadKnown(r.Root)
	isKnown := func(v *Violation) *Known {
		for i := range known {
			k := &known[i]
			if k.Status == "known" && k.Property == v.Property && k.Signature == v.Sig {
				return k
			}
		}
		return nil
	}
	var fresh []*Violation
	var seenKnown []*Known
	sort.Strings(r.violOrder)
	for _, key := range r.violOrder {
		v := r.viol[key]
		if k := isKnown(v); k != nil {
			seenKnown = append(seenKnown, k)
		} else {
			fresh = append(fresh, v)
		}
	}
	for _, k := range seenKnown {
		fmt.Printf("KNOWN-FINDING: property=%s %s [%s]\n", k.Property, k.WhatFails, k.Signature)
	}
	// a run against anything but /repo itself (a scratch worktree with a seeded change) must not
	// overwrite the evidence and replays of the real tree
	outRoot := r.Root
	if vr := os.Getenv("VERIF_REPO"); vr != "" && vr != "/repo" {
		outRoot = filepath.Join(r.Root, ".build", "scratch-run")
	}
	os.MkdirAll(filepath.Join(outRoot, "replays"), 0o755)
	for _, v := range fresh {
		h := sha256.Sum256([]byte(v.Sig))
		p := filepath.Join(outRoot, "replays", fmt.Sprintf("%s-%s.json", v.Property, hex.EncodeToString(h[:6])))
		b, _ := json.MarshalIndent(v, "", " ")
		os.WriteFile(p, b, 0o644)
		fmt.Printf("VIOLATION property=%s replay=%s\n", v.Property, p)
		fmt.Printf("  signature: %s\n  detail: %s\n", v.Sig, firstLines(v.Detail, 12))
	}
	cov := map[string]interface{}{}
	for k, v := range r.Counts {
		cov[k] = v
	}
	for k, v := range r.Extra {
		cov[k] = v
	}
	for _, k := range []string{"states", "transitions", "traces_validated_against_impl", "evaluations"} {
		if _, ok := cov[k]; !ok {
			cov[k] = int64(0)
		}
	}
	if v, _ := cov["evaluations"].(int64); v == 0 {
		cov["evaluations"] = cov["traces_validated_against_impl"]
	}
	cov["distinct_nontrivial"] = len(r.nontrivial)
	cov["rule"] = r.Rule
	cov["exhaustive"] = r.Exhaustive
	samples := r.Samples
	if len(samples) == 0 {
		samples = []interface{}{"(none)"}
	}
	cov["samples"] = samples
	if len(r.Notes) > 0 {
		cov["notes"] = r.Notes
	}
	kf := []string{}
	for _, k := range seenKnown {
		kf = append(kf, k.Signature)
	}
	cov["known_findings_observed"] = kf
	ev := map[string]interface{}{
		"property_id": r.Property,
		"tier":        r.Tier,
		"seed":        r.Seed,
		"level":       "model_checking",
		"coverage":    cov,
		"assumptions": r.Assumptions,
		"wall_s":      time.Since(r.start).Seconds(),
		"violations":  len(fresh),
	}
	if r.Assumptions == nil {
		ev["assumptions"] = []string{}
	}
	b, _ := json.MarshalIndent(ev, "", " ")
	os.MkdirAll(filepath.Join(outRoot, "evidence"), 0o755)
	os.WriteFile(filepath.Join(outRoot, "evidence", r.Property+".json"), b, 0o644)
	fmt.Printf("%s %s: states=%v transitions=%v executions=%v distinct=%d exhaustive=%v violations=%d known=%d wall=%.1fs\n",
		r.Property, r.Tier, cov["states"], cov["transitions"], cov["traces_validated_against_impl"], len(r.nontrivial), r.Exhaustive, len(fresh), len(seenKnown), time.Since(r.start).Seconds())
	if len(fresh) > 0 {
		return 1
	}
	return 0
}

func firstLines(s string, n int) string {
	ls := strings.Split(s, "\n")
	if len(ls) > n {
		ls = append(ls[:n], "...")
	}
	return strings.Join(ls, "\n    ")
}
