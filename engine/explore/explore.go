// Package explore is the schedule explorer (engine E1): depth-first search over
// choice sequences of a controlled execution with iterative preemption
// bounding, exactly as in DESIGN.md 3.1.
package explore

import (
	"fmt"

	"github.com/mit-pdos/go-journal/vrt"
)

// RunFn executes the harness once under the given prefix.
type RunFn func(prefix []int) vrt.Result

type Stats struct {
	Executions  int64
	Points      int64 // total scheduling points with >= 2 alternatives seen
	MaxPoints   int
	Capped      bool
	Divergences int64
	Pruned      int64
}

func usedBefore(pts []vrt.Point, i int) int {
	u := 0
	for j := 0; j < i; j++ {
		u += int(pts[j].Costs[pts[j].Chosen])
	}
	return u
}

func Choices(pts []vrt.Point) []int {
	c := make([]int, len(pts))
	for i, p := range pts {
		c[i] = p.Chosen
	}
	return c
}

// Children returns the prefixes that extend the execution x (run under prefix)
// by one deviation, within the preemption bound.
func Children(prefix []int, pts []vrt.Point, bound int) [][]int {
	var out [][]int
	ch := Choices(pts)
	used := usedBefore(pts, len(prefix))
	for i := len(prefix); i < len(pts); i++ {
		p := pts[i]
		for alt := 1; alt < p.N; alt++ {
			if used+int(p.Costs[alt]) > bound {
				continue
			}
			np := make([]int, i+1)
			copy(np, ch[:i])
			np[i] = alt
			out = append(out, np)
		}
		used += int(p.Costs[p.Chosen])
	}
	return out
}

// ChildrenOf is Children for a finished execution.  An execution that ran into the horizon is a violation
// already (a loop that never ends); deviating at every one of its hundreds of thousands of points would only
// find the same loop again, at the full cost of the horizon each time: such an execution is deviated from in
// its first part only (and DFS gives up after a few of them).
func ChildrenOf(prefix []int, r *vrt.Result, bound int) [][]int {
	pts := r.Points
	if r.Verdict == vrt.VHorizon {
		if lim := len(prefix) + 2000; len(pts) > lim {
			pts = pts[:lim]
		}
	}
	return Children(prefix, pts, bound)
}

// DFS explores every execution that extends prefix within the bound.  visit is
// called for every execution; it returns false to stop the search.  max caps
// the number of executions (0 = none).
func DFS(prefix []int, bound int, max int64, run RunFn, visit func(prefix []int, r *vrt.Result) bool) (Stats, error) {
	var st Stats
	horizons := 0
	stack := [][]int{prefix}
	for len(stack) > 0 {
		p := stack[len(stack)-1]
		stack = stack[:len(stack)-1]
		if max > 0 && st.Executions >= max {
			st.Capped = true
			break
		}
		r := run(p)
		st.Executions++
		if r.Diverged {
			st.Divergences++
			return st, fmt.Errorf("nondeterminism: %s (prefix %v)", r.Msg, p)
		}
		if len(r.Points) < len(p) && r.Verdict == vrt.VOK {
			return st, fmt.Errorf("nondeterminism: execution has %d points, prefix %d (prefix %v)", len(r.Points), len(p), p)
		}
		st.Points += int64(len(r.Points))
		if len(r.Points) > st.MaxPoints {
			st.MaxPoints = len(r.Points)
		}
		if r.Pruned {
			st.Pruned++
		} else if !visit(p, &r) {
			break
		}
		if r.Verdict == vrt.VHorizon {
			horizons++
			if horizons >= 4 {
				st.Capped = true
				break
			}
		}
		kids := ChildrenOf(p, &r, bound)
		// push in reverse so that the earliest deviation is explored first
		for i := len(kids) - 1; i >= 0; i-- {
			stack = append(stack, kids[i])
		}
	}
	return st, nil
}
