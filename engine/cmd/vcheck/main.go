// vcheck is the check driver: `vcheck run <Cxx> <quick|thorough>`,
// `vcheck replay <file>`, and (internally) `vcheck -worker`.
package main

import (
	"encoding/json"
	"fmt"
	"os"
	"path/filepath"
	"runtime"
	"runtime/pprof"
	"time"

	"github.com/mit-pdos/go-journal/vrt"
	"verif/checks"
	"verif/par"
	"verif/report"
)

// memGuard watches the heap of this process.  Code under test that has been changed may make a harness hold on to
// far more than it ever does on the unchanged tree; the sandbox has no memory limit, so the process limits itself:
// beyond soft the time budget is declared used up (searches stop and report exhaustive:false), beyond hard the
// process gives up as a machinery error (exit 2, no verdict).
func memGuard(soft, hard uint64, worker bool) {
	go func() {
		dumped := false
		for {
			time.Sleep(2 * time.Second)
			var ms runtime.MemStats
			runtime.ReadMemStats(&ms)
			if ms.HeapAlloc > soft && !dumped {
				dumped = true
				if pf := os.Getenv("VERIF_HEAPPROF"); pf != "" {
					if f, err := os.Create(pf); err == nil {
						pprof.WriteHeapProfile(f)
						f.Close()
					}
				}
				fmt.Fprintf(os.Stderr, "vcheck: heap %d MB exceeds %d MB: stopping the searches\n", ms.HeapAlloc>>20, soft>>20)
				checks.Deadline = time.Now().Add(-time.Second)
			}
			if ms.HeapAlloc > hard {
				fmt.Fprintf(os.Stderr, "vcheck: heap %d MB exceeds %d MB: giving up (machinery error, no verdict)\n", ms.HeapAlloc>>20, hard>>20)
				os.Exit(2)
			}
		}
	}()
}

func main() {
	if len(os.Args) < 2 {
		fmt.Fprintln(os.Stderr, "usage: vcheck run <Cxx> <quick|thorough> | replay <file> | -worker")
		os.Exit(2)
	}
	exe, _ := os.Executable()
	checks.Root = filepath.Dir(filepath.Dir(filepath.Dir(exe)))
	if r := os.Getenv("VERIF_ROOT"); r != "" {
		checks.Root = r
	}
	if os.Getenv("VERIF_SITES") != "" {
		vrt.RecordSites = true
	}
	switch os.Args[1] {
	case "-worker":
		par.WorkerMain()
	case "run":
		id, tier := os.Args[2], "quick"
		if len(os.Args) > 3 {
			tier = os.Args[3]
		}
		fn := checks.Checks[id]
		if fn == nil {
			fmt.Fprintf(os.Stderr, "no check for %s\n", id)
			os.Exit(2)
		}
		budget := 8 * time.Minute
		if tier == "thorough" {
			budget = 40 * time.Minute
		}
		if s := os.Getenv("VERIF_BUDGET_S"); s != "" {
			var n int
			fmt.Sscan(s, &n)
			budget = time.Duration(n) * time.Second
		}
		checks.Deadline = time.Now().Add(budget)
		memGuard(6<<30, 16<<30, false)
		r := report.New(id, tier, checks.Root)
		fn(r, tier)
		os.Exit(r.Finish())
	case "job":
		if pf := os.Getenv("VERIF_CPUPROFILE"); pf != "" {
			f, _ := os.Create(pf)
			pprof.StartCPUProfile(f)
			defer pprof.StopCPUProfile()
		}
		out, err := par.RunLocal(os.Args[2], json.RawMessage(os.Args[3]))
		ob, _ := json.Marshal(out)
		fmt.Printf("%s\nerr=%v\n", ob, err)
	case "replay":
		b, err := os.ReadFile(os.Args[2])
		if err != nil {
			fmt.Fprintln(os.Stderr, err)
			os.Exit(2)
		}
		var v struct {
			Property string `json:"property"`
			Sig      string `json:"signature"`
			Replay   struct {
				Job string          `json:"job"`
				Arg json.RawMessage `json:"arg"`
			} `json:"replay"`
		}
		if err := json.Unmarshal(b, &v); err != nil {
			fmt.Fprintln(os.Stderr, err)
			os.Exit(2)
		}
		out, err := par.RunLocal(v.Replay.Job, v.Replay.Arg)
		if err != nil {
			fmt.Fprintln(os.Stderr, err)
			os.Exit(2)
		}
		ob, _ := json.MarshalIndent(out, "", " ")
		fmt.Printf("replay of %s [%s]\n%s\n", v.Property, v.Sig, ob)
	default:
		fmt.Fprintln(os.Stderr, "unknown command")
		os.Exit(2)
	}
}
