package main

import (
	"fmt"

	"github.com/mit-pdos/go-journal/vrt"
	"github.com/mit-pdos/go-nfsd/kvs"
	"verif/vdisk"
)

func main() {
	img := vdisk.NewImage(1000)
	var out []string
	res := vrt.Run(vrt.Config{}, func() {
		d := vdisk.New(img)
		k := kvs.MkKVS(d, 1000)
		val := make([]byte, 4096)
		val[0] = 7
		vrt.SetBranching(true)
		a := vrt.Go("c1", false, func() {
			ok := k.MultiPut([]kvs.KVPair{{Key: 600, Val: val}})
			out = append(out, fmt.Sprint("put", ok))
		})
		b := vrt.Go("c2", false, func() {
			p, ok := k.Get(600)
			out = append(out, fmt.Sprint("get", p.Val[0], ok))
		})
		vrt.Join(a, b)
		vrt.SetBranching(false)
		k.Delete()
	})
	fmt.Println(res.Verdict, res.Msg, len(res.Points), res.Steps, out)
}
