// Package crash is engine E2: from the recorded write/barrier trace of one
// execution it derives every disk image a crash could leave behind (DESIGN.md
// 3.2), and it contains an independent decoder of the write-ahead log format.
package crash

import (
	"crypto/sha256"
	"encoding/binary"
	"fmt"
	"sort"

	"verif/vdisk"
)

const (
	LogSlots = 511
	LogStart = 2   // first log data block
	HomeBase = 513 // first block outside the log region
)

// Range of cut positions (a cut p means: events [0,p) were issued) at which an
// image is a possible disk state.
type Range struct{ PMin, PMax int }

type CImage struct {
	Img         *vdisk.Image
	Key         [32]byte
	Ranges      []Range
	Lost        int  // pending writes that did not reach the disk
	LogNonEmpty bool // the on-disk log of the image holds un-installed entries
	Epoch       int
	Desc        string
}

type Stats struct {
	Events, Writes, Barriers, Epochs int
	RawChoices                       int64 // sum over epochs of the number of choice vectors enumerated
	CappedEpochs                     int
	MaxPending                       int
}

type Result struct {
	Images []*CImage
	Stats  Stats
}

func hashBlock(a uint64, b []byte) [32]byte {
	h := sha256.New()
	var ab [8]byte
	binary.LittleEndian.PutUint64(ab[:], a)
	h.Write(ab[:])
	h.Write(b)
	var o [32]byte
	copy(o[:], h.Sum(nil))
	return o
}

func xor(a *[32]byte, b [32]byte) {
	for i := range a {
		a[i] ^= b[i]
	}
}

// DecodeHdr returns (start, end, addrs) of the circular log of an image.
func DecodeHdr(get func(uint64) []byte) (uint64, uint64, []uint64) {
	h1 := get(0)
	h2 := get(1)
	end := binary.LittleEndian.Uint64(h1[0:8])
	addrs := make([]uint64, LogSlots)
	for i := 0; i < LogSlots; i++ {
		addrs[i] = binary.LittleEndian.Uint64(h1[8+8*i:])
	}
	start := binary.LittleEndian.Uint64(h2[0:8])
	return start, end, addrs
}

// Logical returns a reader of the logical disk of an image: home blocks
// overlaid with the log entries [start,end) in order.  It re-implements the
// format of wal/0circular.go and does not use the recovery code.
func Logical(get func(uint64) []byte) (func(uint64) []byte, int, error) {
	start, end, addrs := DecodeHdr(get)
	if end < start || end-start > LogSlots {
		return get, 0, fmt.Errorf("log header inconsistent: start %d end %d", start, end)
	}
	over := map[uint64]uint64{} // home addr -> log block addr
	for pos := start; pos < end; pos++ {
		over[addrs[pos%LogSlots]] = LogStart + pos%LogSlots
	}
	return func(a uint64) []byte {
		if l, ok := over[a]; ok {
			return get(l)
		}
		return get(a)
	}, int(end - start), nil
}

type pend struct {
	addr   uint64
	events []int // indices of pending writes to addr, in issue order
}

// Enumerate derives the crash images of a trace.  capProduct bounds the
// number of choice vectors per (epoch, header choice) that are enumerated in
// full; above it the <=2-deviation rule of DESIGN.md 3.2 applies.
func Enumerate(base *vdisk.Image, log []vdisk.Event, capProduct int) *Result {
	res := &Result{}
	res.Stats.Events = len(log)
	byKey := map[[32]byte]*CImage{}
	// running state at the start of the epoch
	persisted := base // image with everything before the epoch's opening barrier
	homeHash := [32]byte{}
	cur := map[uint64][]byte{} // content of addresses written so far (persisted part), for hashing
	content := func(a uint64) []byte {
		if b, ok := cur[a]; ok {
			return b
		}
		return base.Get(a)
	}
	// initial hash over the base's non-log blocks
	for _, a := range base.Addrs() {
		if a >= HomeBase {
			xor(&homeHash, hashBlock(a, base.Get(a)))
		}
	}
	evHash := make(map[int][32]byte)
	n := len(log)
	epochStart := 0 // first event index of the epoch (just after the barrier)
	epoch := 0
	for epochStart <= n {
		// find the end of the epoch
		epochEnd := n // index of the closing barrier, or n
		for i := epochStart; i < n; i++ {
			if log[i].Kind == vdisk.EvBarrier {
				epochEnd = i
				break
			}
		}
		// pending writes by address
		var pends []*pend
		idx := map[uint64]*pend{}
		for i := epochStart; i < epochEnd; i++ {
			if log[i].Kind != vdisk.EvWrite {
				continue
			}
			res.Stats.Writes++
			p := idx[log[i].Addr]
			if p == nil {
				p = &pend{addr: log[i].Addr}
				idx[log[i].Addr] = p
				pends = append(pends, p)
			}
			p.events = append(p.events, i)
		}
		sort.Slice(pends, func(i, j int) bool { return pends[i].addr < pends[j].addr })
		if len(pends) > res.Stats.MaxPending {
			res.Stats.MaxPending = len(pends)
		}
		res.Stats.Epochs++
		enumEpoch(res, byKey, persisted, content, homeHash, log, pends, epochStart, epochEnd, epoch, capProduct, evHash)
		if epochEnd == n {
			break
		}
		res.Stats.Barriers++
		// advance: everything pending becomes persisted
		m := map[uint64][]byte{}
		for _, p := range pends {
			last := p.events[len(p.events)-1]
			if p.addr >= HomeBase {
				xor(&homeHash, hashBlock(p.addr, content(p.addr)))
				xor(&homeHash, hashBlock(p.addr, log[last].Blk))
			}
			cur[p.addr] = log[last].Blk
			m[p.addr] = log[last].Blk
		}
		if len(m) > 0 {
			persisted = persisted.With(m)
		}
		epochStart = epochEnd + 1
		epoch++
	}
	for _, im := range byKey {
		res.Images = append(res.Images, im)
	}
	sort.Slice(res.Images, func(i, j int) bool {
		a, b := res.Images[i], res.Images[j]
		if a.Ranges[0].PMin != b.Ranges[0].PMin {
			return a.Ranges[0].PMin < b.Ranges[0].PMin
		}
		if a.Lost != b.Lost {
			return a.Lost < b.Lost
		}
		return a.Desc < b.Desc
	})
	return res
}

func enumEpoch(res *Result, byKey map[[32]byte]*CImage, persisted *vdisk.Image, content func(uint64) []byte,
	homeHash [32]byte, log []vdisk.Event, pends []*pend, epochStart, epochEnd, epoch, capProduct int, evHash map[int][32]byte) {
	// choice[i] = -1 (old content) or k = index into pends[i].events
	choice := make([]int, len(pends))
	var hdrIdx, homeIdx, logIdx []int
	for i, p := range pends {
		switch {
		case p.addr < LogStart:
			hdrIdx = append(hdrIdx, i)
		case p.addr < HomeBase:
			logIdx = append(logIdx, i)
		default:
			homeIdx = append(homeIdx, i)
		}
	}
	emit := func() {
		res.Stats.RawChoices++
		over := map[uint64][]byte{}
		pmin := epochStart
		lost := 0
		hh := homeHash
		desc := fmt.Sprintf("epoch %d [%d,%d):", epoch, epochStart, epochEnd)
		for i, p := range pends {
			c := choice[i]
			if c >= 0 {
				e := p.events[c]
				over[p.addr] = log[e].Blk
				if e+1 > pmin {
					pmin = e + 1
				}
				if p.addr >= HomeBase {
					xor(&hh, hashBlock(p.addr, content(p.addr)))
					eh, ok := evHash[e]
					if !ok {
						eh = hashBlock(p.addr, log[e].Blk)
						evHash[e] = eh
					}
					xor(&hh, eh)
				}
			}
			if c != len(p.events)-1 {
				lost++
				desc += fmt.Sprintf(" %d:%d/%d", p.addr, c+1, len(p.events))
			}
		}
		get := func(a uint64) []byte {
			if b, ok := over[a]; ok {
				return b
			}
			return persisted.Get(a)
		}
		// canonical key: home blocks + live part of the log
		start, end, addrs := DecodeHdr(get)
		h := sha256.New()
		h.Write(hh[:])
		var b8 [8]byte
		binary.LittleEndian.PutUint64(b8[:], start)
		h.Write(b8[:])
		binary.LittleEndian.PutUint64(b8[:], end)
		h.Write(b8[:])
		live := end >= start && end-start <= LogSlots
		if live {
			for pos := start; pos < end; pos++ {
				binary.LittleEndian.PutUint64(b8[:], addrs[pos%LogSlots])
				h.Write(b8[:])
				h.Write(get(LogStart + pos%LogSlots))
			}
		} else {
			// inconsistent header: no canonicalisation, hash the whole log region
			for a := uint64(0); a < HomeBase; a++ {
				h.Write(get(a))
			}
		}
		var key [32]byte
		copy(key[:], h.Sum(nil))
		r := Range{PMin: pmin, PMax: epochEnd}
		if im, ok := byKey[key]; ok {
			im.Ranges = append(im.Ranges, r)
			return
		}
		byKey[key] = &CImage{Img: persisted.With(over), Key: key, Ranges: []Range{r}, Lost: lost,
			LogNonEmpty: live && end > start, Epoch: epoch, Desc: desc}
	}
	// enumerate the product over idxs (others fixed), falling back to the capped rule
	var product func(idxs []int, k int)
	product = func(idxs []int, k int) {
		if k == len(idxs) {
			emit()
			return
		}
		i := idxs[k]
		for c := -1; c < len(pends[i].events); c++ {
			choice[i] = c
			product(idxs, k+1)
		}
	}
	size := func(idxs []int) int {
		s := 1
		for _, i := range idxs {
			s *= len(pends[i].events) + 1
			if s > 1<<30 {
				return 1 << 30
			}
		}
		return s
	}
	setAll := func(idxs []int, latest bool) {
		for _, i := range idxs {
			if latest {
				choice[i] = len(pends[i].events) - 1
			} else {
				choice[i] = -1
			}
		}
	}
	inner := func() {
		// headers are fixed in choice[]; decide which log slots are live
		over := map[uint64][]byte{}
		for _, i := range hdrIdx {
			if choice[i] >= 0 {
				over[pends[i].addr] = log[pends[i].events[choice[i]]].Blk
			}
		}
		get := func(a uint64) []byte {
			if b, ok := over[a]; ok {
				return b
			}
			return persisted.Get(a)
		}
		start, end, _ := DecodeHdr(get)
		var rel []int
		rel = append(rel, homeIdx...)
		for _, i := range logIdx {
			slot := pends[i].addr - LogStart
			liveSlot := true
			if end >= start && end-start <= LogSlots {
				liveSlot = false
				for pos := start; pos < end; pos++ {
					if pos%LogSlots == slot {
						liveSlot = true
						break
					}
				}
			}
			if liveSlot {
				rel = append(rel, i)
			} else {
				choice[i] = len(pends[i].events) - 1 // irrelevant: never read before being rewritten
			}
		}
		if size(rel) <= capProduct {
			product(rel, 0)
			return
		}
		res.Stats.CappedEpochs++
		// capped rule: <=2 deviations from both extremes, plus issue-order prefixes
		for _, latest := range []bool{false, true} {
			setAll(rel, latest)
			emit()
			for x := 0; x < len(rel); x++ {
				for cx := -1; cx < len(pends[rel[x]].events); cx++ {
					setAll(rel, latest)
					choice[rel[x]] = cx
					emit()
					for y := x + 1; y < len(rel) && len(rel) <= 24; y++ {
						for cy := -1; cy < len(pends[rel[y]].events); cy++ {
							choice[rel[y]] = cy
							emit()
						}
						setAll(rel[y:y+1], latest)
					}
				}
			}
		}
		// prefixes in issue order
		var evs []int
		where := map[int][2]int{}
		for _, i := range rel {
			for k, e := range pends[i].events {
				evs = append(evs, e)
				where[e] = [2]int{i, k}
			}
		}
		sort.Ints(evs)
		setAll(rel, false)
		for _, e := range evs {
			w := where[e]
			choice[w[0]] = w[1]
			emit()
		}
	}
	if size(hdrIdx) <= 64 {
		var hp func(k int)
		hp = func(k int) {
			if k == len(hdrIdx) {
				inner()
				return
			}
			i := hdrIdx[k]
			for c := -1; c < len(pends[i].events); c++ {
				choice[i] = c
				hp(k + 1)
			}
		}
		hp(0)
	} else {
		res.Stats.CappedEpochs++
		for _, latest := range []bool{false, true} {
			setAll(hdrIdx, latest)
			inner()
		}
	}
}
