// Package par runs registered job functions in worker subprocesses (one per
// core): isolation against fatal errors and memory blow-ups of the code under
// test, and parallelism although the scheduler is process-global.
package par

import (
	"bufio"
	"bytes"
	"encoding/json"
	"fmt"
	"io"
	"os"
	"os/exec"
	"runtime"
	"sync"
	"time"
)

type JobFn func(arg json.RawMessage) (interface{}, error)

var registry = map[string]JobFn{}

func Register(name string, fn JobFn) { registry[name] = fn }

type req struct {
	Name string          `json:"name"`
	Arg  json.RawMessage `json:"arg"`
}

type resp struct {
	Out json.RawMessage `json:"out"`
	Err string          `json:"err,omitempty"`
}

type Result struct {
	Out     json.RawMessage
	Err     string // job returned an error
	Crashed bool   // worker died while running this job
	Skipped bool   // not started: the deadline had passed
	Stderr  string // tail of the worker's stderr if it died
}

// WorkerMain is the body of a worker process: jobs on stdin, results on stdout.
func WorkerMain() {
	runtime.GOMAXPROCS(1)
	in := bufio.NewReaderSize(os.Stdin, 1<<20)
	out := bufio.NewWriter(os.Stdout)
	for {
		line, err := in.ReadBytes('\n')
		if len(line) == 0 && err != nil {
			return
		}
		var r req
		if e := json.Unmarshal(line, &r); e != nil {
			fmt.Fprintf(os.Stderr, "worker: bad request: %v\n", e)
			os.Exit(3)
		}
		fn := registry[r.Name]
		var rs resp
		if fn == nil {
			rs.Err = "unknown job " + r.Name
		} else {
			v, e := fn(r.Arg)
			if e != nil {
				rs.Err = e.Error()
			}
			if v != nil {
				b, e2 := json.Marshal(v)
				if e2 != nil {
					rs.Err = "marshal: " + e2.Error()
				} else {
					rs.Out = b
				}
			}
		}
		b, _ := json.Marshal(rs)
		out.Write(b)
		out.WriteByte('\n')
		out.Flush()
		if err != nil {
			return
		}
	}
}

type Options struct {
	Workers  int
	Exe      string    // default: this executable
	Env      []string  // extra environment
	UlimitV  int64     // kilobytes of virtual memory per worker, 0 = none
	Deadline time.Time // jobs not started by then are skipped (zero: none)
}

type tailBuf struct {
	mu sync.Mutex
	b  []byte
}

func (t *tailBuf) Write(p []byte) (int, error) {
	t.mu.Lock()
	t.b = append(t.b, p...)
	if len(t.b) > 1<<16 {
		t.b = t.b[len(t.b)-(1<<16):]
	}
	t.mu.Unlock()
	return len(p), nil
}

func (t *tailBuf) String() string {
	t.mu.Lock()
	defer t.mu.Unlock()
	return string(t.b)
}

type worker struct {
	cmd    *exec.Cmd
	stdin  io.WriteCloser
	stdout *bufio.Reader
	stderr *tailBuf
}

func spawn(o Options) (*worker, error) {
	exe := o.Exe
	if exe == "" {
		exe, _ = os.Executable()
	}
	var cmd *exec.Cmd
	if o.UlimitV > 0 {
		cmd = exec.Command("/bin/sh", "-c", fmt.Sprintf("ulimit -v %d; exec \"$0\" -worker", o.UlimitV), exe)
	} else {
		cmd = exec.Command(exe, "-worker")
	}
	cmd.Env = append(append(os.Environ(), "GOMAXPROCS=1"), o.Env...)
	w := &worker{cmd: cmd, stderr: &tailBuf{}}
	var err error
	if w.stdin, err = cmd.StdinPipe(); err != nil {
		return nil, err
	}
	so, err := cmd.StdoutPipe()
	if err != nil {
		return nil, err
	}
	w.stdout = bufio.NewReaderSize(so, 1<<20)
	cmd.Stderr = w.stderr
	if err := cmd.Start(); err != nil {
		return nil, err
	}
	return w, nil
}

// Map runs job name on every arg; results are in argument order.  cb (may be
// nil) is called from a single goroutine as results arrive.
func Map(name string, args []interface{}, o Options, cb func(i int, r *Result)) []Result {
	if o.Workers <= 0 {
		o.Workers = runtime.NumCPU()
	}
	if o.Workers > len(args) {
		o.Workers = len(args)
	}
	results := make([]Result, len(args))
	next := 0
	var mu sync.Mutex
	var cbmu sync.Mutex
	var wg sync.WaitGroup
	for k := 0; k < o.Workers; k++ {
		wg.Add(1)
		go func() {
			defer wg.Done()
			var w *worker
			for {
				mu.Lock()
				i := next
				next++
				mu.Unlock()
				if i >= len(args) {
					break
				}
				if !o.Deadline.IsZero() && time.Now().After(o.Deadline) {
					results[i] = Result{Skipped: true}
					if cb != nil {
						cbmu.Lock()
						cb(i, &results[i])
						cbmu.Unlock()
					}
					continue
				}
				if w == nil {
					var err error
					w, err = spawn(o)
					if err != nil {
						results[i] = Result{Crashed: true, Stderr: "spawn: " + err.Error()}
						continue
					}
				}
				ab, _ := json.Marshal(args[i])
				line, _ := json.Marshal(req{Name: name, Arg: ab})
				line = append(line, '\n')
				_, werr := w.stdin.Write(line)
				var out []byte
				var rerr error
				if werr == nil {
					out, rerr = w.stdout.ReadBytes('\n')
				}
				if werr != nil || rerr != nil {
					w.stdin.Close()
					w.cmd.Wait()
					results[i] = Result{Crashed: true, Stderr: w.stderr.String()}
					w = nil
				} else {
					var rs resp
					if e := json.Unmarshal(bytes.TrimSpace(out), &rs); e != nil {
						results[i] = Result{Crashed: true, Stderr: "bad response: " + e.Error()}
					} else {
						results[i] = Result{Out: rs.Out, Err: rs.Err}
					}
				}
				if cb != nil {
					cbmu.Lock()
					cb(i, &results[i])
					cbmu.Unlock()
				}
			}
			if w != nil {
				w.stdin.Close()
				w.cmd.Wait()
			}
		}()
	}
	wg.Wait()
	return results
}

// RunLocal runs a job in this process (replay).
func RunLocal(name string, arg json.RawMessage) (interface{}, error) {
	fn := registry[name]
	if fn == nil {
		return nil, fmt.Errorf("unknown job %s", name)
	}
	return fn(arg)
}
