// Package vsync is the API-compatible replacement for package sync in the
// instrumented copies.  With no scheduler installed it passes straight through
// to sync; under vrt.Run every operation is a scheduling point of the
// controlled execution.
package vsync

import (
	"sync"

	"github.com/mit-pdos/go-journal/vrt"
)

type Locker = sync.Locker
type WaitGroup = sync.WaitGroup
type Once = sync.Once

type Mutex struct {
	real sync.Mutex
	m    *vrt.Mu
}

//go:norace
func (m *Mutex) mu() *vrt.Mu {
	if m.m == nil {
		m.m = vrt.NewMu()
	}
	return m.m
}

func (m *Mutex) Lock() {
	if vrt.S == nil {
		m.real.Lock()
		return
	}
	vrt.Lock(m.mu())
	if vrt.RaceBuild {
		m.real.Lock() // never blocks: gives the race detector the program's edge
	}
}

func (m *Mutex) Unlock() {
	if vrt.S == nil {
		m.real.Unlock()
		return
	}
	if vrt.Dead() {
		return
	}
	if vrt.RaceBuild {
		m.real.Unlock()
	}
	vrt.Unlock(m.mu())
}

type Cond struct {
	L       Locker
	real    *sync.Cond
	waiters []*vrt.Thread
}

func NewCond(l Locker) *Cond {
	return &Cond{L: l, real: sync.NewCond(l)}
}

func (c *Cond) Wait() {
	if vrt.S == nil {
		c.real.Wait()
		return
	}
	m := c.L.(*Mutex)
	if vrt.RaceBuild && !vrt.Dead() {
		m.real.Unlock()
	}
	c.wait(m)
	if vrt.RaceBuild {
		m.real.Lock()
	}
}

//go:norace
func (c *Cond) wait(m *Mutex) {
	if !vrt.Dead() {
		c.waiters = append(c.waiters, vrt.Cur())
	}
	vrt.CondWait(m.mu())
}

//go:norace
func (c *Cond) Signal() {
	if vrt.S == nil {
		c.real.Signal()
		return
	}
	if vrt.Dead() || len(c.waiters) == 0 {
		return
	}
	i := vrt.Choose(len(c.waiters))
	t := c.waiters[i]
	c.waiters = append(c.waiters[:i:i], c.waiters[i+1:]...)
	vrt.Wake(t)
}

//go:norace
func (c *Cond) Broadcast() {
	if vrt.S == nil {
		c.real.Broadcast()
		return
	}
	if vrt.Dead() {
		return
	}
	for _, t := range c.waiters {
		vrt.Wake(t)
	}
	c.waiters = nil
}

// Go replaces the go statement: background threads of the code under test
// (logger, installer, shrinker) are daemons of the execution.
func Go(f func()) {
	vrt.Go("daemon", vrt.ClDaemon, f)
}

// GoWorker is what go statements of go-nfsd itself become (the shrinker): a
// background thread that is scheduled like a client.
func GoWorker(f func()) {
	vrt.Go("worker", vrt.ClWorker, f)
}
