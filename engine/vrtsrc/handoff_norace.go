//go:build !race

package vrt

import "sync/atomic"

// handoff parks a goroutine until another one wakes it with a value.
type handoff struct{ c chan int }

func (h *handoff) init()      { h.c = make(chan int, 1) }
func (h *handoff) wake(v int) { h.c <- v }
func (h *handoff) park() int  { return <-h.c }

func storeDone(t *Thread) { atomic.StoreUint32(&t.DoneFlag, 1) }
func loadDone(t *Thread)  { atomic.LoadUint32(&t.DoneFlag) }

const RaceBuild = false
