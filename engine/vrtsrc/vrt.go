// Package vrt is the verification runtime that the instrumented copies of
// go-nfsd and go-journal are linked against: a cooperative scheduler that owns
// every goroutine, mutex and condition variable of the code under test, a
// logical clock, and deterministic map iteration.  Exactly one thread of an
// execution runs at any time; an execution is a deterministic function of the
// list of choices taken at its scheduling points.  See DESIGN.md 3.1 and
// Appendix B.
//
// Every function that touches scheduler state is //go:norace: in the -race
// build control is handed from goroutine to goroutine without creating a
// happens-before edge (handoff_race.go), so the race detector sees only the
// program's own synchronisation.
package vrt

import (
	"cmp"
	"fmt"
	"runtime"
	"runtime/debug"
	"sort"
	"sync/atomic"
	"time"
)

// Point classes (bit mask in Config.Points)
const (
	PLock   = 1 << iota // before Mutex.Lock / re-acquisition after Cond.Wait (always on)
	PUnlock             // after Mutex.Unlock
	PDiskW              // before Disk.Write / Barrier
	PDiskR              // before Disk.Read
	PStart              // thread start / exit (always on)
)

const (
	VOK = iota
	VDeadlock
	VHorizon
	VPanic
)

var VerdictNames = []string{"ok", "deadlock", "horizon", "panic"}

type Point struct {
	N      int     // number of alternatives (>= 2)
	Chosen int     // index taken
	Data   bool    // data choice (which waiter a Signal wakes) rather than a thread choice
	Costs  []uint8 // deviation cost of each alternative (0 = free)
	Step   int
}

// Thread classes
const (
	ClClient = 0 // harness clients (and thread 0)
	ClWorker = 1 // background threads of go-nfsd (shrinker): scheduled like clients
	ClDaemon = 2 // journal logger / installer
)

const (
	pendNone = iota
	pendLock
	pendIdle // enabled only when nothing else is
	pendJoin
)

type Thread struct {
	ID       int
	Name     string
	Class    int
	s        *Sched
	pend     int
	mu       *Mu   // mutex needed to proceed
	inCond   bool  // waiting on a condition variable, not yet signalled
	joinOn   []int // thread ids
	done     bool
	hand     handoff
	DoneFlag uint32 // real atomic, gives Join a program-level happens-before edge
	WaitSite string
	vc       []uint32 // vector clock (happens-before fingerprinting)
	clock    int64    // per-thread logical clock
}

// Mu is the model-level state of one vsync.Mutex.
type Mu struct {
	Holder *Thread
	ID     int
	vc     []uint32 // clock of the last release
}

// Visited is the set of states already expanded by the explorer, shared by
// the executions of one search: key = (happens-before fingerprint, running
// thread), value = fewest preemptions used when reaching it.
type Visited struct {
	tab    []vent // open addressing; slices only (map accesses carry race-detector hooks even in norace code)
	n      int
	Pruned int64
}

type vent struct {
	k    [3]uint64
	used int32
	full bool
}

func NewVisited() *Visited { return &Visited{tab: make([]vent, 1<<12)} }

//go:norace
func (v *Visited) Len() int { return v.n }

//go:norace
func (v *Visited) slot(k [3]uint64) int {
	m := len(v.tab) - 1
	i := int(mix(k[0]^k[1]*31^k[2])) & m
	for v.tab[i].full && v.tab[i].k != k {
		i = (i + 1) & m
	}
	return i
}

// visit reports whether the state was already expanded with at most `used`
// deviations; otherwise it records it.
//
//go:norace
func (v *Visited) visit(k [3]uint64, used int) bool {
	i := v.slot(k)
	if v.tab[i].full {
		if int(v.tab[i].used) <= used {
			return true
		}
		v.tab[i].used = int32(used)
		return false
	}
	v.tab[i] = vent{k: k, used: int32(used), full: true}
	v.n++
	if v.n*2 > len(v.tab) {
		old := v.tab
		v.tab = make([]vent, len(old)*2)
		for _, e := range old {
			if e.full {
				v.tab[v.slot(e.k)] = e
			}
		}
	}
	return false
}

type Config struct {
	Prefix      []int
	Points      int // mask of optional point classes
	Horizon     int
	DaemonEager bool     // default policy: run an enabled journal daemon before clients (instead of only when every client is blocked)
	KeepClock   bool     // do not reset the logical clock at the start
	Visited     *Visited // nil: no state caching
}

type Result struct {
	Verdict  int
	Msg      string
	Stack    string
	Points   []Point
	Steps    int
	Threads  []string // state of every thread at the end (for deadlock reports)
	Diverged bool
	Pruned   bool // cut short: reached a state the search has already expanded
}

type Sched struct {
	cfg       Config
	threads   []*Thread
	cur       *Thread
	points    []Point
	ncho      int
	steps     int
	skipped   int // yields of point classes that are switched off (no scheduling point, but still progress of the execution)
	skipLimit int
	dead      bool
	branching bool
	res       Result
	clock     int64
	nmu       int
	LockObs   func(tid int, kind int, addr uint64)
	live      int32
	finished  chan struct{} // closed when the last goroutine is gone (a real channel: the caller of Run is not a thread of the execution)
	fp        [2]uint64     // fingerprint of the happens-before trace so far
	used      int           // preemptions used so far
	diskW     []uint32      // clock of the last disk write/barrier
	addrW     [][]uint32    // indexed by disk address
	addrR     [][]uint32
}

// S is the scheduler of the execution in progress (nil: free-running mode,
// the shim passes straight through to package sync).
var S *Sched

// The logical clock advances in nanoseconds within one and the same second: the
// adversarial choice for anything derived from coarse time (a restart can follow a
// crash immediately).
const clockEpoch int64 = 1_700_000_000

var clockBase int64 = 1000

// TimeNow replaces time.Now in the code under test: a logical clock that is
// monotonic across server instances of one process.
//
//go:norace
func TimeNow() time.Time {
	if s := S; s != nil && !s.dead {
		// per-thread logical time: no shared state, so two interleavings with the same
		// synchronisation order produce the same values
		t := s.cur
		t.clock++
		v := clockBase + t.clock*64 + int64(t.ID)
		return time.Unix(clockEpoch, v)
	}
	clockBase++
	return time.Unix(clockEpoch, clockBase)
}

//go:norace
func ResetClock() { clockBase = 1000 }

// SortedKeys fixes map iteration order.
func SortedKeys[K cmp.Ordered, V any](m map[K]V) []K {
	keys := make([]K, 0, len(m))
	for k := range m {
		keys = append(keys, k)
	}
	if MapDescending {
		sort.Slice(keys, func(i, j int) bool { return keys[i] > keys[j] })
	} else {
		sort.Slice(keys, func(i, j int) bool { return keys[i] < keys[j] })
	}
	return keys
}

var MapDescending bool

// LockEvent is called by the woven lockmap.Acquire (kind 0, before blocking)
// and lockmap.Release (kind 1).
//
//go:norace
func LockEvent(kind int, addr uint64) {
	s := S
	if s == nil || s.LockObs == nil || s.dead {
		return
	}
	s.LockObs(s.cur.ID, kind, addr)
}

// Run executes body as thread 0 of a fresh controlled execution and returns
// when every goroutine of the execution is gone.
//
//go:norace
func Run(cfg Config, body func()) Result {
	if S != nil {
		panic("vrt.Run: nested execution")
	}
	if cfg.Horizon == 0 {
		cfg.Horizon = 2_000_000
	}
	s := &Sched{cfg: cfg, skipLimit: cfg.Horizon}
	if !cfg.KeepClock {
		ResetClock()
	}
	S = s
	t := s.newThread("main", ClClient)
	s.cur = t
	s.finished = make(chan struct{})
	s.spawn(t, body)
	t.hand.wake(1)
	<-s.finished
	S = nil
	var mc int64
	for _, u := range s.threads {
		if u.clock > mc {
			mc = u.clock
		}
	}
	clockBase += mc*64 + 64
	s.res.Points = s.points
	s.res.Steps = s.steps
	return s.res
}

//go:norace
func (s *Sched) newThread(name string, class int) *Thread {
	t := &Thread{ID: len(s.threads), Name: name, Class: class, s: s}
	t.hand.init()
	s.threads = append(s.threads, t)
	return t
}

//go:norace
func (s *Sched) spawn(t *Thread, f func()) {
	atomic.AddInt32(&s.live, 1)
	go threadMain(s, t, f)
}

//go:norace
func threadMain(s *Sched, t *Thread, f func()) {
	defer threadExit(s, t)
	if t.hand.park() != 1 {
		return
	}
	f()
}

//go:norace
func threadExit(s *Sched, t *Thread) {
	if r := recover(); r != nil {
		if !s.dead {
			s.res.Verdict = VPanic
			s.res.Msg = fmt.Sprint(r)
			s.res.Stack = string(debug.Stack())
			s.kill()
		}
	}
	if !s.dead {
		s.event(t, 12, 0) // thread exit is an event (distinguishes it from the last point before it)
	}
	t.done = true
	storeDone(t)
	if !s.dead && s.cur == t {
		if t.ID == 0 {
			// the harness body returned: the execution is over
			s.kill()
		} else {
			s.schedule(t)
		}
	}
	if atomic.AddInt32(&s.live, -1) == 0 {
		close(s.finished)
	}
}

// kill ends the execution: every parked thread is told to unwind.
//
//go:norace
func (s *Sched) kill() {
	if s.dead {
		return
	}
	s.dead = true
	if s.res.Verdict != VOK {
		for _, t := range s.threads {
			s.res.Threads = append(s.res.Threads, t.describe())
		}
	}
	for _, t := range s.threads {
		if t != s.cur && !t.done {
			t.hand.wake(2)
		}
	}
}

//go:norace
func (t *Thread) describe() string {
	st := "runnable"
	switch {
	case t.done:
		st = "done"
	case t.inCond:
		st = "cond-wait"
	case t.pend == pendLock:
		h := "free"
		if t.mu.Holder != nil {
			h = fmt.Sprintf("held by %d(%s)", t.mu.Holder.ID, t.mu.Holder.Name)
		}
		st = fmt.Sprintf("wants mutex#%d %s", t.mu.ID, h)
	case t.pend == pendIdle:
		st = "idle-wait"
	case t.pend == pendJoin:
		st = fmt.Sprintf("join %v", t.joinOn)
	}
	if t.WaitSite != "" {
		st += " @" + t.WaitSite
	}
	return fmt.Sprintf("%d(%s): %s", t.ID, t.Name, st)
}

//go:norace
func (s *Sched) enabled(t *Thread) bool {
	if t.done || t.inCond {
		return false
	}
	switch t.pend {
	case pendLock:
		return t.mu.Holder == nil
	case pendIdle:
		return false // handled separately
	case pendJoin:
		for _, id := range t.joinOn {
			if !s.threads[id].done {
				return false
			}
		}
		return true
	}
	return true
}

// schedule is the scheduling point.  Called by the running thread t (which may
// have just finished or may be about to block); returns when t is scheduled
// again.  Never returns if the execution is killed while t is parked.
//
//go:norace
func (s *Sched) schedule(t *Thread) {
	if s.dead {
		if !t.done {
			runtime.Goexit()
		}
		return
	}
	s.steps++
	if !t.done {
		// a scheduling point is a (thread-local) event of its own: two consecutive points of
		// one thread with no synchronisation in between are different program states
		s.event(t, 11, 0)
	}
	if s.steps > s.cfg.Horizon {
		s.res.Verdict = VHorizon
		s.res.Msg = fmt.Sprintf("more than %d scheduling points", s.cfg.Horizon)
		s.kill()
		if !t.done {
			runtime.Goexit()
		}
		return
	}
	// enabled set in canonical order with the deviation cost of each alternative:
	// the running thread (free); then clients and workers by id (a preemption if the
	// running thread is still enabled, else free); then journal daemons (free only if
	// nothing else can run, and then only the first of them).  With DaemonEager the
	// daemons come first and are free.
	var en [16]*Thread
	var cs [16]uint8
	list := en[:0]
	costs := cs[:0]
	curEn := s.enabled(t)
	if curEn {
		list = append(list, t)
		costs = append(costs, 0)
	}
	var joiner *Thread
	if t.ID == 0 && t.pend == pendJoin && curEn {
		joiner = t
	}
	pre := uint8(0)
	if curEn {
		pre = 1
	}
	addClass := func(daemons bool) {
		for _, u := range s.threads {
			if u == t || (u.Class == ClDaemon) != daemons || !s.enabled(u) {
				continue
			}
			if u.ID == 0 && u.pend == pendJoin {
				joiner = u
			}
			c := pre
			if daemons && !s.cfg.DaemonEager && len(list) > 0 {
				c = 1
			}
			list = append(list, u)
			costs = append(costs, c)
		}
	}
	if s.cfg.DaemonEager {
		addClass(true)
		addClass(false)
	} else {
		addClass(false)
		addClass(true)
	}
	var next *Thread
	switch {
	case joiner != nil:
		// all clients have returned: the harness continues, no choice
		next = joiner
	case len(list) == 0:
		// nothing enabled: an idle-waiting thread may proceed, else deadlock
		for _, u := range s.threads {
			if !u.done && !u.inCond && u.pend == pendIdle {
				next = u
				break
			}
		}
		if next == nil {
			s.res.Verdict = VDeadlock
			s.res.Msg = "no enabled thread"
			s.kill()
			if !t.done {
				runtime.Goexit()
			}
			return
		}
	case len(list) == 1 || !s.branching:
		next = list[0]
	default:
		c := s.choice(len(list), false, costs)
		if c < 0 {
			if !t.done {
				runtime.Goexit()
			}
			return
		}
		next = list[c]
	}
	if next == t {
		return
	}
	s.cur = next
	next.hand.wake(1)
	if t.done {
		return
	}
	if t.hand.park() != 1 {
		runtime.Goexit()
	}
}

//go:norace
func (s *Sched) choice(n int, data bool, costs []uint8) int {
	c := 0
	i := len(s.points)
	if v := s.cfg.Visited; v != nil && i >= len(s.cfg.Prefix) && !data {
		key := [3]uint64{s.fp[0], s.fp[1], uint64(s.cur.ID)}
		if v.visit(key, s.used) {
			v.Pruned++
			s.res.Pruned = true
			s.kill()
			return -1
		}
	}
	if i < len(s.cfg.Prefix) {
		c = s.cfg.Prefix[i]
		if c >= n {
			s.res.Diverged = true
			s.res.Msg = fmt.Sprintf("replay divergence: choice %d of %d at point %d", c, n, i)
			c = 0
		}
	}
	cc := make([]uint8, n)
	copy(cc, costs)
	s.points = append(s.points, Point{N: n, Chosen: c, Data: data, Costs: cc, Step: s.steps})
	s.used += int(cc[c])
	return c
}

// ---- API for the harness (thread 0) and the shim ----

// Cur returns the running thread (nil in free-running mode).
//
//go:norace
func Cur() *Thread {
	if S == nil {
		return nil
	}
	return S.cur
}

//go:norace
func CurID() int {
	if S == nil {
		return -1
	}
	return S.cur.ID
}

//go:norace
func Dead() bool { return S != nil && S.dead }

// Go starts a new thread of the execution.
//
//go:norace
func Go(name string, class int, f func()) int {
	s := S
	if s == nil {
		go f()
		return -1
	}
	if s.dead {
		return -1
	}
	t := s.newThread(name, class)
	s.event(s.cur, 7, uint64(t.ID))
	t.vc = cloneVC(s.cur.vc)
	s.spawn(t, f)
	return t.ID
}

// Yield is a plain scheduling point of class cls.
//
//go:norace
func Yield(cls int) {
	s := S
	if s == nil || s.dead {
		if s != nil && s.dead {
			runtime.Goexit()
		}
		return
	}
	if cls&(PLock|PStart) == 0 && s.cfg.Points&cls == 0 {
		// not a scheduling point in this execution - but the horizon also bounds what happens between scheduling
		// points: a loop of disk operations that never ends (a recovery that follows an overwritten log header,
		// say) would otherwise go on until the memory is used up
		s.skipped++
		if s.skipped > s.skipLimit {
			s.res.Verdict = VHorizon
			s.res.Msg = fmt.Sprintf("more than %d disk operations / optional points within the horizon", s.skipLimit)
			t := s.cur
			s.kill()
			if !t.done {
				runtime.Goexit()
			}
		}
		return
	}
	s.schedule(s.cur)
}

// Join blocks the calling thread until the listed threads have finished.
//
//go:norace
func Join(ids ...int) {
	s := S
	t := s.cur
	t.pend = pendJoin
	t.joinOn = ids
	s.schedule(t)
	t.pend = pendNone
	for _, id := range ids {
		loadDone(s.threads[id])
		join(&t.vc, s.threads[id].vc)
	}
}

// Quiesce blocks the calling thread until no other thread is enabled (all
// daemons are waiting on a condition variable).
//
//go:norace
func Quiesce() {
	s := S
	t := s.cur
	t.pend = pendIdle
	s.schedule(t)
	t.pend = pendNone
}

// SetBranching switches recording of choices on and off.  While off, the
// default choice is taken everywhere and nothing is recorded.
//
//go:norace
func SetBranching(b bool) { S.branching = b }

//go:norace
func SetLockObs(f func(tid int, kind int, addr uint64)) { S.LockObs = f }

//go:norace
func Steps() int { return S.steps }

// Horizon returns the current horizon (0 outside an execution).
//
//go:norace
func Horizon() int {
	if S != nil {
		return S.cfg.Horizon
	}
	return 0
}

// SetHorizon moves the horizon: the execution is declared a runaway when it
// passes n scheduling points in total.
//
//go:norace
func SetHorizon(n int) {
	if S != nil {
		S.cfg.Horizon = n
		if w := n - S.steps; w > 0 {
			S.skipLimit = S.skipped + w
		} else {
			S.skipLimit = S.skipped
		}
	}
}

// Choose is a data choice among n alternatives.
//
//go:norace
func Choose(n int) int {
	s := S
	if s == nil || s.dead || n <= 1 || !s.branching {
		return 0
	}
	c := s.choice(n, true, nil)
	s.event(s.cur, 6, uint64(c))
	return c
}

// ---- happens-before fingerprint ----

//go:norace
func join(a *[]uint32, b []uint32) {
	for len(*a) < len(b) {
		*a = append(*a, 0)
	}
	for i, x := range b {
		if x > (*a)[i] {
			(*a)[i] = x
		}
	}
}

func mix(x uint64) uint64 {
	x ^= x >> 30
	x *= 0xbf58476d1ce4e5b9
	x ^= x >> 27
	x *= 0x94d049bb133111eb
	x ^= x >> 31
	return x
}

// event advances t's clock and adds the event (thread, index, kind, extra,
// causal past) to the fingerprint.  The fingerprint is a commutative sum, so
// two prefixes that are linearisations of the same partial order agree.
//
//go:norace
func (s *Sched) event(t *Thread, kind uint64, extra uint64) {
	for len(t.vc) <= t.ID {
		t.vc = append(t.vc, 0)
	}
	t.vc[t.ID]++
	h1 := mix(uint64(t.ID)<<40 ^ uint64(t.vc[t.ID])<<8 ^ kind)
	h2 := mix(h1 ^ 0x9e3779b97f4a7c15 ^ extra)
	h1 = mix(h1 + extra*0x2545f4914f6cdd1d)
	for i, x := range t.vc {
		if i == t.ID {
			continue
		}
		h1 = mix(h1 ^ (uint64(i)<<32 | uint64(x)))
		h2 = mix(h2 + (uint64(x)<<20 | uint64(i)))
	}
	s.fp[0] += h1
	s.fp[1] += h2
}

//go:norace
func cloneVC(v []uint32) []uint32 {
	c := make([]uint32, len(v))
	copy(c, v)
	return c
}

// DiskEvent records a disk operation for the happens-before relation: writes
// and barriers are totally ordered, a read depends on the writes to its address.
//
//go:norace
func DiskEvent(write bool, barrier bool, addr uint64) {
	s := S
	if s == nil || s.dead {
		return
	}
	t := s.cur
	for uint64(len(s.addrW)) <= addr {
		s.addrW = append(s.addrW, nil)
		s.addrR = append(s.addrR, nil)
	}
	if write || barrier {
		join(&t.vc, s.diskW)
		if write {
			join(&t.vc, s.addrR[addr])
			join(&t.vc, s.addrW[addr])
		}
		k := uint64(3)
		if barrier {
			k = 4
		}
		s.event(t, k, addr)
		s.diskW = cloneVC(t.vc)
		if write {
			s.addrW[addr] = s.diskW
			s.addrR[addr] = nil
		}
		return
	}
	join(&t.vc, s.addrW[addr])
	s.event(t, 5, addr)
	r := s.addrR[addr]
	join(&r, t.vc)
	s.addrR[addr] = r
}

// ---- primitives used by vsync ----

//go:norace
func NewMu() *Mu {
	m := &Mu{}
	if S != nil {
		S.nmu++
		m.ID = S.nmu
	}
	return m
}

//go:norace
func site() string {
	var pcs [14]uintptr
	n := runtime.Callers(3, pcs[:])
	fr := runtime.CallersFrames(pcs[:n])
	out := ""
	for {
		f, more := fr.Next()
		name := f.Function
		if i := lastSlash(name); i >= 0 {
			name = name[i+1:]
		}
		out += fmt.Sprintf("%s:%d<", name, f.Line)
		if !more {
			break
		}
	}
	return out
}

func lastSlash(s string) int {
	for i := len(s) - 1; i >= 0; i-- {
		if s[i] == '/' {
			return i
		}
	}
	return -1
}

var RecordSites bool

// Lock: scheduling point, then acquisition.
//
//go:norace
func Lock(m *Mu) {
	s := S
	if s.dead {
		runtime.Goexit()
	}
	t := s.cur
	t.pend = pendLock
	t.mu = m
	if RecordSites || m.Holder == t {
		t.WaitSite = site()
	}
	s.schedule(t)
	t.pend = pendNone
	t.WaitSite = ""
	if m.Holder != nil {
		panic("vrt: scheduled a thread whose mutex is held")
	}
	m.Holder = t
	join(&t.vc, m.vc)
	s.event(t, 1, 0)
}

//go:norace
func Unlock(m *Mu) {
	s := S
	if s.dead {
		// unwinding: deferred unlocks are no-ops
		return
	}
	t := s.cur
	if m.Holder != t {
		panic(fmt.Sprintf("vrt: unlock of mutex#%d not held by the running thread", m.ID))
	}
	m.Holder = nil
	s.event(t, 2, 0)
	m.vc = cloneVC(t.vc)
	if s.cfg.Points&PUnlock != 0 {
		s.schedule(t)
	}
}

// CondWait: t has been added to the waiter list by the caller.
//
//go:norace
func CondWait(m *Mu) {
	s := S
	if s.dead {
		runtime.Goexit()
	}
	t := s.cur
	if m.Holder != t {
		panic("vrt: Cond.Wait without holding the mutex")
	}
	m.Holder = nil
	s.event(t, 8, 0)
	m.vc = cloneVC(t.vc)
	t.inCond = true
	t.pend = pendLock
	t.mu = m
	if RecordSites {
		t.WaitSite = site()
	}
	s.schedule(t)
	t.pend = pendNone
	t.WaitSite = ""
	if m.Holder != nil {
		panic("vrt: woke a waiter whose mutex is held")
	}
	m.Holder = t
	join(&t.vc, m.vc)
	s.event(t, 9, 0)
}

//go:norace
func Wake(t *Thread) {
	t.inCond = false
	if s := S; s != nil && !s.dead {
		s.event(s.cur, 10, uint64(t.ID))
		join(&t.vc, s.cur.vc)
	}
}
