//go:build race

package vrt

import (
	"runtime"
	"sync/atomic"
)

// In the -race build the hand-off must not create a happens-before edge, so it
// is a spin on a plain word inside //go:norace functions (the workers run with
// GOMAXPROCS=1, so the spin only yields the processor).
type handoff struct{ v int }

//go:norace
func (h *handoff) init() { h.v = 0 }

//go:norace
func (h *handoff) wake(v int) { h.v = v }

//go:norace
func (h *handoff) park() int {
	for h.v == 0 {
		runtime.Gosched()
	}
	v := h.v
	h.v = 0
	return v
}

// Thread exit -> Join is a program-level edge (a WaitGroup in a real client).
func storeDone(t *Thread) { atomic.StoreUint32(&t.DoneFlag, 1) }
func loadDone(t *Thread)  { atomic.LoadUint32(&t.DoneFlag) }

const RaceBuild = true
