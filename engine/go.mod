module verif

go 1.22

require (
	github.com/goose-lang/primitive v0.1.0
	github.com/mit-pdos/go-journal v0.5.4
	github.com/mit-pdos/go-nfsd v0.0.0
	github.com/zeldovich/go-rpcgen v0.1.5
)

require (
	github.com/goose-lang/goose v0.7.1 // indirect
	github.com/goose-lang/std v0.4.1 // indirect
	github.com/rodaine/table v1.2.0 // indirect
	github.com/tchajed/marshal v0.6.2 // indirect
	golang.org/x/sys v0.22.0 // indirect
)

replace github.com/mit-pdos/go-nfsd => ../.build/gen/go-nfsd

replace github.com/mit-pdos/go-journal => ../.build/gen/go-journal
