// Package fsx drives the real go-nfsd server: a JSON-serialisable operation
// type, symbolic handle variables bound from the server's replies, a uniform
// reply type, and the API-only dump of the whole tree.
package fsx

import (
	"encoding/hex"
	"fmt"
	"strings"

	"github.com/mit-pdos/go-nfsd/nfstypes"
)

// Op is one request (or environment action).  H and H2 are handle variables:
// "root", or the name under which an earlier reply bound a handle (by default
// "<dirvar>/<name>"), "dead:<var>" for the most recent dead handle of a
// variable, or "raw:<hex>" for literal bytes.
type Op struct {
	K      string `json:"k"`
	H      string `json:"h,omitempty"`
	N      string `json:"n,omitempty"`
	H2     string `json:"h2,omitempty"`
	N2     string `json:"n2,omitempty"`
	Off    uint64 `json:"off,omitempty"`
	Cnt    uint64 `json:"cnt,omitempty"`
	Len    int64  `json:"len,omitempty"` // WRITE: bytes of data supplied (-1: Cnt)
	Pat    byte   `json:"pat,omitempty"`
	Size   uint64 `json:"size,omitempty"`
	Stable int    `json:"stable,omitempty"`
	Target string `json:"target,omitempty"`
	Cookie uint64 `json:"cookie,omitempty"`
	DirCnt uint32 `json:"dircnt,omitempty"`
	MaxCnt uint32 `json:"maxcnt,omitempty"`
	Mtime  uint32 `json:"mtime,omitempty"` // SETATTR: set mtime to client time (seconds), 0 = leave
	Atime  uint32 `json:"atime,omitempty"`
	NoSize bool   `json:"nosize,omitempty"` // SETATTR without size
	Perm   int    `json:"perm,omitempty"`   // SETATTR: bits 1 = set mode, 2 = set uid, 4 = set gid
	STime  int    `json:"stime,omitempty"`  // SETATTR: bits 1 = mtime, 2 = atime set to the server's time
	Mode   int    `json:"mode,omitempty"`   // CREATE: 0 unchecked, 1 guarded, 2 exclusive
	As     string `json:"as,omitempty"`     // variable to bind the returned handle to
}

func (o Op) String() string {
	var b strings.Builder
	b.WriteString(o.K)
	w := func(f string, a ...interface{}) { fmt.Fprintf(&b, f, a...) }
	switch o.K {
	case "CREATE", "MKDIR", "LOOKUP", "REMOVE", "RMDIR", "MKNOD", "CREATEX":
		w("(%s,%q)", o.H, short(o.N))
	case "SYMLINK":
		w("(%s,%q->%q)", o.H, short(o.N), short(o.Target))
	case "RENAME":
		w("(%s,%q->%s,%q)", o.H, short(o.N), o.H2, short(o.N2))
	case "LINK":
		w("(%s->%s,%q)", o.H, o.H2, short(o.N2))
	case "WRITE":
		w("(%s,off=%d,cnt=%d,pat=%#x,stable=%d", o.H, o.Off, o.Cnt, o.Pat, o.Stable)
		if o.Len != 0 {
			w(",datalen=%d", o.Len)
		}
		w(")")
	case "READ":
		w("(%s,off=%d,cnt=%d)", o.H, o.Off, o.Cnt)
	case "COMMIT":
		w("(%s,off=%d,cnt=%d)", o.H, o.Off, o.Cnt)
	case "SETATTR":
		w("(%s", o.H)
		if !o.NoSize {
			w(",size=%d", o.Size)
		}
		if o.Mtime != 0 {
			w(",mtime=%d", o.Mtime)
		}
		if o.Atime != 0 {
			w(",atime=%d", o.Atime)
		}
		if o.Perm != 0 {
			w(",perm-bits=%d", o.Perm)
		}
		if o.STime != 0 {
			w(",server-time-bits=%d", o.STime)
		}
		w(")")
	case "READDIR":
		w("(%s,cookie=%d,count=%d)", o.H, o.Cookie, o.Cnt)
	case "READDIRPLUS":
		w("(%s,cookie=%d,dircount=%d,maxcount=%d)", o.H, o.Cookie, o.DirCnt, o.MaxCnt)
	case "RESTART", "CRASH", "FLUSH", "NULL":
	default:
		w("(%s)", o.H)
	}
	return b.String()
}

func short(s string) string {
	if len(s) > 12 {
		return fmt.Sprintf("%s..[%d]", s[:4], len(s))
	}
	return s
}

func Hist(ops []Op) string {
	var s []string
	for _, o := range ops {
		s = append(s, o.String())
	}
	return strings.Join(s, "; ")
}

// Data generates the payload of a WRITE deterministically from the pattern.
func (o Op) Data() []byte {
	n := int64(o.Cnt)
	if o.Len > 0 {
		n = o.Len
	} else if o.Len < 0 {
		n = 0
	}
	return PatBytes(o.Pat, o.Off, n)
}

// PatBytes: byte i of a pattern write at file offset off.  The pattern byte
// dominates (so foreign data is recognisable) but positions are distinguishable.
func PatBytes(pat byte, off uint64, n int64) []byte {
	b := make([]byte, n)
	for i := range b {
		p := off + uint64(i)
		if p%64 == 0 {
			b[i] = byte(p/64) | 0x80
		} else {
			b[i] = pat
		}
	}
	return b
}

type Attr struct {
	Type   uint32    `json:"type"`
	Size   uint64    `json:"size"`
	Fileid uint64    `json:"fileid"`
	Nlink  uint32    `json:"nlink"`
	Atime  [2]uint32 `json:"atime"`
	Mtime  [2]uint32 `json:"mtime"`
}

type Ent struct {
	Name   string `json:"name"`
	Fileid uint64 `json:"fileid"`
	Cookie uint64 `json:"cookie"`
	FH     []byte `json:"fh,omitempty"`
	Attr   *Attr  `json:"attr,omitempty"`
}

type Reply struct {
	Status    uint32            `json:"status"`
	FH        []byte            `json:"fh,omitempty"`
	Attr      *Attr             `json:"attr,omitempty"`
	Data      []byte            `json:"data,omitempty"`
	Eof       bool              `json:"eof,omitempty"`
	Count     uint32            `json:"count,omitempty"`
	Committed int               `json:"committed,omitempty"`
	Verf      []byte            `json:"verf,omitempty"`
	Target    string            `json:"target,omitempty"`
	Ents      []Ent             `json:"ents,omitempty"`
	Info      map[string]uint64 `json:"info,omitempty"`
}

func (r *Reply) OK() bool { return r.Status == 0 }

const (
	StStale     = 70
	StBadHandle = 10001
	StNotSupp   = 10004
)

func (r Reply) Brief() string {
	s := fmt.Sprintf("st=%d", r.Status)
	if r.FH != nil {
		s += " fh=" + hex.EncodeToString(r.FH)
	}
	if r.Attr != nil {
		s += fmt.Sprintf(" attr{t%d sz%d id%d}", r.Attr.Type, r.Attr.Size, r.Attr.Fileid)
	}
	if r.Data != nil || r.Count != 0 {
		s += fmt.Sprintf(" data[%d]%s eof=%v cnt=%d", len(r.Data), sum(r.Data), r.Eof, r.Count)
	}
	if r.Committed != 0 {
		s += fmt.Sprintf(" committed=%d", r.Committed)
	}
	if r.Target != "" {
		s += " target=" + r.Target
	}
	if r.Ents != nil {
		s += " ents["
		for _, e := range r.Ents {
			s += fmt.Sprintf("%s:%d ", short(e.Name), e.Fileid)
		}
		s += fmt.Sprintf("] eof=%v", r.Eof)
	}
	return s
}

func sum(b []byte) string {
	if len(b) == 0 {
		return ""
	}
	var h uint32 = 2166136261
	for _, x := range b {
		h = (h ^ uint32(x)) * 16777619
	}
	return fmt.Sprintf("#%08x", h)
}

// Vars maps handle variables to handles.
type Vars struct {
	Live map[string][]byte
	Dead map[string][][]byte // former bindings, most recent last
}

func NewVars() *Vars {
	return &Vars{Live: map[string][]byte{"root": RootFH()}, Dead: map[string][][]byte{}}
}

func (v *Vars) Clone() *Vars {
	c := &Vars{Live: map[string][]byte{}, Dead: map[string][][]byte{}}
	for k, x := range v.Live {
		c.Live[k] = x
	}
	for k, x := range v.Dead {
		c.Dead[k] = append([][]byte{}, x...)
	}
	return c
}

func RootFH() []byte {
	b := make([]byte, 16)
	b[0] = 1
	b[8] = 1
	return b
}

// Resolve returns the handle bytes of a variable; ok=false if it is unbound.
func (v *Vars) Resolve(ref string) ([]byte, bool) {
	switch {
	case strings.HasPrefix(ref, "raw:"):
		b, err := hex.DecodeString(ref[4:])
		return b, err == nil
	case strings.HasPrefix(ref, "dead:"):
		d := v.Dead[ref[5:]]
		if len(d) == 0 {
			return nil, false
		}
		return d[len(d)-1], true
	}
	h, ok := v.Live[ref]
	return h, ok
}

func (v *Vars) Bind(name string, fh []byte) {
	if old, ok := v.Live[name]; ok {
		v.Dead[name] = append(v.Dead[name], old)
	}
	v.Live[name] = fh
}

func (v *Vars) Kill(name string) {
	if old, ok := v.Live[name]; ok {
		v.Dead[name] = append(v.Dead[name], old)
		delete(v.Live, name)
	}
}

// BindName is the variable a creating / looking-up operation binds.
func (o Op) BindName() string {
	if o.As != "" {
		return o.As
	}
	return o.H + "/" + o.N
}

func fh3(b []byte) nfstypes.Nfs_fh3 { return nfstypes.Nfs_fh3{Data: b} }

func attrOf(f nfstypes.Fattr3) *Attr {
	return &Attr{Type: uint32(f.Ftype), Size: uint64(f.Size), Fileid: uint64(f.Fileid), Nlink: uint32(f.Nlink),
		Atime: [2]uint32{uint32(f.Atime.Seconds), uint32(f.Atime.Nseconds)}, Mtime: [2]uint32{uint32(f.Mtime.Seconds), uint32(f.Mtime.Nseconds)}}
}

func postAttr(p nfstypes.Post_op_attr) *Attr {
	if !p.Attributes_follow {
		return nil
	}
	return attrOf(p.Attributes)
}

func postFH(p nfstypes.Post_op_fh3) []byte {
	if !p.Handle_follows {
		return nil
	}
	return p.Handle.Data
}

// Exec performs one NFS request with explicit handle bytes.
func Exec(srv nfstypes.NFS_PROGRAM_NFS_V3_handler, o Op, h, h2 []byte) Reply {
	var r Reply
	switch o.K {
	case "NULL":
		srv.NFSPROC3_NULL()
	case "GETATTR":
		x := srv.NFSPROC3_GETATTR(nfstypes.GETATTR3args{Object: fh3(h)})
		r.Status = uint32(x.Status)
		if x.Status == 0 {
			r.Attr = attrOf(x.Resok.Obj_attributes)
		}
	case "SETATTR":
		var a nfstypes.SETATTR3args
		a.Object = fh3(h)
		if !o.NoSize {
			a.New_attributes.Size.Set_it = true
			a.New_attributes.Size.Size = nfstypes.Size3(o.Size)
		}
		if o.Mtime != 0 {
			a.New_attributes.Mtime.Set_it = nfstypes.SET_TO_CLIENT_TIME
			a.New_attributes.Mtime.Mtime = nfstypes.Nfstime3{Seconds: nfstypes.Uint32(o.Mtime), Nseconds: 7}
		}
		if o.Atime != 0 {
			a.New_attributes.Atime.Set_it = nfstypes.SET_TO_CLIENT_TIME
			a.New_attributes.Atime.Atime = nfstypes.Nfstime3{Seconds: nfstypes.Uint32(o.Atime), Nseconds: 9}
		}
		if o.Perm&1 != 0 {
			a.New_attributes.Mode = nfstypes.Set_mode3{Set_it: true, Mode: 0640}
		}
		if o.Perm&2 != 0 {
			a.New_attributes.Uid = nfstypes.Set_uid3{Set_it: true, Uid: 1000}
		}
		if o.Perm&4 != 0 {
			a.New_attributes.Gid = nfstypes.Set_gid3{Set_it: true, Gid: 1000}
		}
		if o.STime&1 != 0 {
			a.New_attributes.Mtime.Set_it = nfstypes.SET_TO_SERVER_TIME
		}
		if o.STime&2 != 0 {
			a.New_attributes.Atime.Set_it = nfstypes.SET_TO_SERVER_TIME
		}
		x := srv.NFSPROC3_SETATTR(a)
		r.Status = uint32(x.Status)
		if x.Status == 0 {
			r.Attr = postAttr(x.Resok.Obj_wcc.After)
		}
	case "LOOKUP":
		x := srv.NFSPROC3_LOOKUP(nfstypes.LOOKUP3args{What: nfstypes.Diropargs3{Dir: fh3(h), Name: nfstypes.Filename3(o.N)}})
		r.Status = uint32(x.Status)
		if x.Status == 0 {
			r.FH = x.Resok.Object.Data
			r.Attr = postAttr(x.Resok.Obj_attributes)
		}
	case "ACCESS":
		x := srv.NFSPROC3_ACCESS(nfstypes.ACCESS3args{Object: fh3(h), Access: 0x3f})
		r.Status = uint32(x.Status)
	case "READLINK":
		x := srv.NFSPROC3_READLINK(nfstypes.READLINK3args{Symlink: fh3(h)})
		r.Status = uint32(x.Status)
		if x.Status == 0 {
			r.Target = string(x.Resok.Data)
		}
	case "READ":
		x := srv.NFSPROC3_READ(nfstypes.READ3args{File: fh3(h), Offset: nfstypes.Offset3(o.Off), Count: nfstypes.Count3(o.Cnt)})
		r.Status = uint32(x.Status)
		if x.Status == 0 {
			r.Data = append([]byte{}, x.Resok.Data...)
			if r.Data == nil {
				r.Data = []byte{}
			}
			r.Eof = x.Resok.Eof
			r.Count = uint32(x.Resok.Count)
		}
	case "WRITE":
		x := srv.NFSPROC3_WRITE(nfstypes.WRITE3args{File: fh3(h), Offset: nfstypes.Offset3(o.Off), Count: nfstypes.Count3(o.Cnt),
			Stable: nfstypes.Stable_how(o.Stable), Data: o.Data()})
		r.Status = uint32(x.Status)
		if x.Status == 0 {
			r.Count = uint32(x.Resok.Count)
			r.Committed = int(x.Resok.Committed)
			r.Verf = append([]byte{}, x.Resok.Verf[:]...)
			r.Attr = postAttr(x.Resok.File_wcc.After)
		}
	case "CREATE", "CREATEX":
		var how nfstypes.Createhow3
		how.Mode = nfstypes.Createmode3(o.Mode)
		if o.K == "CREATEX" {
			how.Mode = nfstypes.EXCLUSIVE
		}
		x := srv.NFSPROC3_CREATE(nfstypes.CREATE3args{Where: nfstypes.Diropargs3{Dir: fh3(h), Name: nfstypes.Filename3(o.N)}, How: how})
		r.Status = uint32(x.Status)
		if x.Status == 0 {
			r.FH = postFH(x.Resok.Obj)
			r.Attr = postAttr(x.Resok.Obj_attributes)
		}
	case "MKDIR":
		x := srv.NFSPROC3_MKDIR(nfstypes.MKDIR3args{Where: nfstypes.Diropargs3{Dir: fh3(h), Name: nfstypes.Filename3(o.N)}})
		r.Status = uint32(x.Status)
		if x.Status == 0 {
			r.FH = postFH(x.Resok.Obj)
			r.Attr = postAttr(x.Resok.Obj_attributes)
		}
	case "SYMLINK":
		x := srv.NFSPROC3_SYMLINK(nfstypes.SYMLINK3args{Where: nfstypes.Diropargs3{Dir: fh3(h), Name: nfstypes.Filename3(o.N)},
			Symlink: nfstypes.Symlinkdata3{Symlink_data: nfstypes.Nfspath3(o.Target)}})
		r.Status = uint32(x.Status)
		if x.Status == 0 {
			r.FH = postFH(x.Resok.Obj)
			r.Attr = postAttr(x.Resok.Obj_attributes)
		}
	case "MKNOD":
		x := srv.NFSPROC3_MKNOD(nfstypes.MKNOD3args{Where: nfstypes.Diropargs3{Dir: fh3(h), Name: nfstypes.Filename3(o.N)}})
		r.Status = uint32(x.Status)
	case "REMOVE":
		x := srv.NFSPROC3_REMOVE(nfstypes.REMOVE3args{Object: nfstypes.Diropargs3{Dir: fh3(h), Name: nfstypes.Filename3(o.N)}})
		r.Status = uint32(x.Status)
	case "RMDIR":
		x := srv.NFSPROC3_RMDIR(nfstypes.RMDIR3args{Object: nfstypes.Diropargs3{Dir: fh3(h), Name: nfstypes.Filename3(o.N)}})
		r.Status = uint32(x.Status)
	case "RENAME":
		x := srv.NFSPROC3_RENAME(nfstypes.RENAME3args{From: nfstypes.Diropargs3{Dir: fh3(h), Name: nfstypes.Filename3(o.N)},
			To: nfstypes.Diropargs3{Dir: fh3(h2), Name: nfstypes.Filename3(o.N2)}})
		r.Status = uint32(x.Status)
	case "LINK":
		x := srv.NFSPROC3_LINK(nfstypes.LINK3args{File: fh3(h), Link: nfstypes.Diropargs3{Dir: fh3(h2), Name: nfstypes.Filename3(o.N2)}})
		r.Status = uint32(x.Status)
	case "READDIR":
		x := srv.NFSPROC3_READDIR(nfstypes.READDIR3args{Dir: fh3(h), Cookie: nfstypes.Cookie3(o.Cookie), Count: nfstypes.Count3(o.Cnt)})
		r.Status = uint32(x.Status)
		if x.Status == 0 {
			r.Ents = []Ent{}
			for e := x.Resok.Reply.Entries; e != nil; e = e.Nextentry {
				r.Ents = append(r.Ents, Ent{Name: string(e.Name), Fileid: uint64(e.Fileid), Cookie: uint64(e.Cookie)})
			}
			r.Eof = x.Resok.Reply.Eof
		}
	case "READDIRPLUS":
		x := srv.NFSPROC3_READDIRPLUS(nfstypes.READDIRPLUS3args{Dir: fh3(h), Cookie: nfstypes.Cookie3(o.Cookie),
			Dircount: nfstypes.Count3(o.DirCnt), Maxcount: nfstypes.Count3(o.MaxCnt)})
		r.Status = uint32(x.Status)
		if x.Status == 0 {
			r.Ents = []Ent{}
			for e := x.Resok.Reply.Entries; e != nil; e = e.Nextentry {
				r.Ents = append(r.Ents, Ent{Name: string(e.Name), Fileid: uint64(e.Fileid), Cookie: uint64(e.Cookie),
					FH: postFH(e.Name_handle), Attr: postAttr(e.Name_attributes)})
			}
			r.Eof = x.Resok.Reply.Eof
		}
	case "FSSTAT":
		x := srv.NFSPROC3_FSSTAT(nfstypes.FSSTAT3args{Fsroot: fh3(h)})
		r.Status = uint32(x.Status)
	case "FSINFO":
		x := srv.NFSPROC3_FSINFO(nfstypes.FSINFO3args{Fsroot: fh3(h)})
		r.Status = uint32(x.Status)
		if x.Status == 0 {
			r.Info = map[string]uint64{"rtmax": uint64(x.Resok.Rtmax), "rtpref": uint64(x.Resok.Rtpref), "wtmax": uint64(x.Resok.Wtmax),
				"wtpref": uint64(x.Resok.Wtpref), "dtpref": uint64(x.Resok.Dtpref), "maxfilesize": uint64(x.Resok.Maxfilesize)}
		}
	case "PATHCONF":
		x := srv.NFSPROC3_PATHCONF(nfstypes.PATHCONF3args{Object: fh3(h)})
		r.Status = uint32(x.Status)
		if x.Status == 0 {
			r.Info = map[string]uint64{"name_max": uint64(x.Resok.Name_max), "linkmax": uint64(x.Resok.Linkmax)}
			if x.Resok.No_trunc {
				r.Info["no_trunc"] = 1
			}
		}
	case "COMMIT":
		x := srv.NFSPROC3_COMMIT(nfstypes.COMMIT3args{File: fh3(h), Offset: nfstypes.Offset3(o.Off), Count: nfstypes.Count3(o.Cnt)})
		r.Status = uint32(x.Status)
		if x.Status == 0 {
			r.Verf = append([]byte{}, x.Resok.Verf[:]...)
		}
	default:
		panic("fsx: unknown op " + o.K)
	}
	return r
}
