package fsx

import (
	"crypto/sha256"
	"encoding/hex"
	"fmt"
	"sort"
	"strings"

	"github.com/mit-pdos/go-nfsd/nfstypes"
)

type Node struct {
	Kind   int    `json:"kind"`
	Size   uint64 `json:"size"`
	FH     string `json:"fh"`
	Fileid uint64 `json:"fileid"`
	Data   string `json:"data,omitempty"` // digest of the content
	Target string `json:"target,omitempty"`
	Mtime  uint32 `json:"mtime,omitempty"`
	Atime  uint32 `json:"atime,omitempty"`
	Nlink  uint32 `json:"nlink,omitempty"`
}

// Probe says which bytes of a file a dump reads: files up to Full bytes are
// read entirely; of larger (sparse) files only the first and last 8 KB and 8 KB
// around every window offset (reading a hole materialises it, so a 1 GB sparse
// file cannot be read in full).
type Probe struct {
	Full    uint64   `json:"full"`
	Windows []uint64 `json:"windows,omitempty"`
}

var DefaultProbe = &Probe{Full: 1 << 20}

func (p *Probe) Ranges(size uint64) [][2]uint64 {
	if size == 0 {
		return nil
	}
	if size <= p.Full {
		return [][2]uint64{{0, size}}
	}
	var rs [][2]uint64
	add := func(c uint64) {
		lo := uint64(0)
		if c > 4096 {
			lo = (c - 4096) / 4096 * 4096
		}
		hi := lo + 12288
		if lo >= size {
			return
		}
		if hi > size {
			hi = size
		}
		rs = append(rs, [2]uint64{lo, hi})
	}
	add(0)
	add(size - 1)
	for _, w := range p.Windows {
		add(w)
	}
	sort.Slice(rs, func(i, j int) bool { return rs[i][0] < rs[j][0] })
	var out [][2]uint64
	for _, r := range rs {
		if n := len(out); n > 0 && r[0] <= out[n-1][1] {
			if r[1] > out[n-1][1] {
				out[n-1][1] = r[1]
			}
			continue
		}
		out = append(out, r)
	}
	return out
}

// Digest of the probed content: sparse (all-zero 4K-aligned chunks are
// skipped so that implementation and model agree without reading order mattering).
func (p *Probe) Digest(size uint64, read func(off, cnt uint64) []byte) string {
	h := sha256.New()
	nz := 0
	for _, r := range p.Ranges(size) {
		for off := r[0]; off < r[1]; {
			n := uint64(32768)
			if off+n > r[1] {
				n = r[1] - off
			}
			b := read(off, n)
			if uint64(len(b)) != n {
				fmt.Fprintf(h, "short@%d:%d/%d;", off, len(b), n)
			}
			for i := 0; i < len(b); i += 4096 {
				j := i + 4096
				if j > len(b) {
					j = len(b)
				}
				allz := true
				for _, x := range b[i:j] {
					if x != 0 {
						allz = false
						break
					}
				}
				if !allz {
					fmt.Fprintf(h, "@%d:", off+uint64(i))
					h.Write(b[i:j])
					nz++
				}
			}
			off += n
		}
	}
	if nz == 0 {
		return fmt.Sprintf("zeros(%d)", size)
	}
	return hex.EncodeToString(h.Sum(nil)[:10])
}

// ListDir enumerates a directory completely with READDIRPLUS.
func ListDir(srv nfstypes.NFS_PROGRAM_NFS_V3_handler, dir []byte) ([]Ent, error) {
	var all []Ent
	cookie := uint64(0)
	for i := 0; i < 100000; i++ {
		r := Exec(srv, Op{K: "READDIRPLUS", Cookie: cookie, DirCnt: 1 << 30, MaxCnt: 1 << 30}, dir, nil)
		if !r.OK() {
			return all, fmt.Errorf("READDIRPLUS status %d", r.Status)
		}
		all = append(all, r.Ents...)
		if r.Eof {
			return all, nil
		}
		if len(r.Ents) == 0 {
			return all, fmt.Errorf("READDIRPLUS: empty page without eof at cookie %d", cookie)
		}
		nc := r.Ents[len(r.Ents)-1].Cookie
		if nc == cookie && i > 0 {
			return all, fmt.Errorf("READDIRPLUS: no progress at cookie %d", cookie)
		}
		cookie = nc
	}
	return all, fmt.Errorf("READDIRPLUS: enumeration did not end")
}

// ListDirPaged enumerates a directory page by page with the given size limit (READDIR: count; READDIRPLUS: maxcount,
// dircount unlimited), passing back the cookie of the last entry received.
func ListDirPaged(srv nfstypes.NFS_PROGRAM_NFS_V3_handler, dir []byte, plus bool, limit uint64) ([]Ent, error) {
	var all []Ent
	cookie := uint64(0)
	k := "READDIR"
	if plus {
		k = "READDIRPLUS"
	}
	for i := 0; i < 100000; i++ {
		r := Exec(srv, Op{K: k, Cookie: cookie, Cnt: limit, DirCnt: 1 << 30, MaxCnt: uint32(limit)}, dir, nil)
		if !r.OK() {
			return all, fmt.Errorf("%s(limit %d) status %d at cookie %d", k, limit, r.Status, cookie)
		}
		all = append(all, r.Ents...)
		if r.Eof {
			return all, nil
		}
		if len(r.Ents) == 0 {
			return all, fmt.Errorf("%s(limit %d): empty page without eof at cookie %d", k, limit, cookie)
		}
		cookie = r.Ents[len(r.Ents)-1].Cookie
	}
	return all, fmt.Errorf("%s(limit %d): enumeration did not end", k, limit)
}

// Dump walks the whole tree through the API only.
func Dump(srv nfstypes.NFS_PROGRAM_NFS_V3_handler, p *Probe) (map[string]Node, error) {
	out := map[string]Node{}
	if p == nil {
		p = DefaultProbe
	}
	var walk func(path string, fh []byte, depth int) error
	walk = func(path string, fh []byte, depth int) error {
		if depth > 64 {
			return fmt.Errorf("%s: directory nesting deeper than 64 (cycle?)", path)
		}
		g := Exec(srv, Op{K: "GETATTR"}, fh, nil)
		if !g.OK() {
			return fmt.Errorf("%s: GETATTR status %d", path, g.Status)
		}
		n := Node{Kind: int(g.Attr.Type), Size: g.Attr.Size, FH: hex.EncodeToString(fh), Fileid: g.Attr.Fileid, Mtime: g.Attr.Mtime[0], Atime: g.Attr.Atime[0], Nlink: g.Attr.Nlink}
		switch n.Kind {
		case 1:
			var rerr error
			n.Data = p.Digest(n.Size, func(off, cnt uint64) []byte {
				r := Exec(srv, Op{K: "READ", Off: off, Cnt: cnt}, fh, nil)
				if !r.OK() {
					rerr = fmt.Errorf("%s: READ(%d,%d) status %d", path, off, cnt, r.Status)
				}
				return r.Data
			})
			if rerr != nil {
				return rerr
			}
		case 5:
			r := Exec(srv, Op{K: "READLINK"}, fh, nil)
			if !r.OK() {
				return fmt.Errorf("%s: READLINK status %d", path, r.Status)
			}
			n.Target = r.Target
		case 2:
			n.Size = 0
		}
		out[path] = n
		if n.Kind != 2 {
			return nil
		}
		ents, err := ListDir(srv, fh)
		if err != nil {
			return fmt.Errorf("%s: %v", path, err)
		}
		seen := map[string]bool{}
		sort.Slice(ents, func(i, j int) bool { return ents[i].Name < ents[j].Name })
		for _, e := range ents {
			if seen[e.Name] {
				return fmt.Errorf("%s: name %q listed twice", path, e.Name)
			}
			seen[e.Name] = true
			if e.Name == "." || e.Name == ".." {
				continue
			}
			l := Exec(srv, Op{K: "LOOKUP", N: e.Name}, fh, nil)
			if !l.OK() {
				return fmt.Errorf("%s/%s: listed but LOOKUP status %d", path, e.Name, l.Status)
			}
			if e.FH != nil && hex.EncodeToString(e.FH) != hex.EncodeToString(l.FH) {
				return fmt.Errorf("%s/%s: READDIRPLUS handle differs from LOOKUP handle", path, e.Name)
			}
			if err := walk(path+"/"+e.Name, l.FH, depth+1); err != nil {
				return err
			}
		}
		if !seen["."] || !seen[".."] {
			return fmt.Errorf("%s: listing lacks . or ..", path)
		}
		return nil
	}
	err := walk("", RootFH(), 0)
	return out, err
}

func DumpString(d map[string]Node) string {
	var ps []string
	for p := range d {
		ps = append(ps, p)
	}
	sort.Strings(ps)
	var s strings.Builder
	for _, p := range ps {
		n := d[p]
		fmt.Fprintf(&s, "%s k%d sz%d id%d fh%s %s %s m%d a%d n%d\n", p, n.Kind, n.Size, n.Fileid, n.FH, n.Data, n.Target, n.Mtime, n.Atime, n.Nlink)
	}
	return s.String()
}

// ExactDump is the dump used by C10: everything a client can observe, exactly -
// handle bytes, every attribute incl. times and nlink, listing order and
// cookies of READDIR and READDIRPLUS, every byte (within the probe).
func ExactDump(srv nfstypes.NFS_PROGRAM_NFS_V3_handler, p *Probe) string {
	var b []byte
	w := func(f string, a ...interface{}) { b = append(b, fmt.Sprintf(f, a...)...) }
	var walk func(path string, fh []byte, depth int)
	walk = func(path string, fh []byte, depth int) {
		g := Exec(srv, Op{K: "GETATTR"}, fh, nil)
		w("%s fh=%x st=%d", path, fh, g.Status)
		if !g.OK() || depth > 32 {
			w("\n")
			return
		}
		a := g.Attr
		w(" type=%d size=%d id=%d nlink=%d atime=%v mtime=%v", a.Type, a.Size, a.Fileid, a.Nlink, a.Atime, a.Mtime)
		switch a.Type {
		case 1:
			w(" data=%s\n", p.Digest(a.Size, func(off, cnt uint64) []byte { return Exec(srv, Op{K: "READ", Off: off, Cnt: cnt}, fh, nil).Data }))
		case 5:
			w(" target=%q\n", Exec(srv, Op{K: "READLINK"}, fh, nil).Target)
		case 2:
			w("\n")
			rd := Exec(srv, Op{K: "READDIR", Cnt: 1 << 30}, fh, nil)
			w("  readdir st=%d eof=%v:", rd.Status, rd.Eof)
			for _, e := range rd.Ents {
				w(" %s/%d/%d", e.Name, e.Fileid, e.Cookie)
			}
			w("\n")
			ents, err := ListDir(srv, fh)
			w("  readdirplus err=%v:", err)
			for _, e := range ents {
				w(" %s/%d/%d/%x", e.Name, e.Fileid, e.Cookie, e.FH)
				if e.Attr != nil {
					w("/%d/%d/%v/%v", e.Attr.Type, e.Attr.Size, e.Attr.Atime, e.Attr.Mtime)
				}
			}
			w("\n")
			for _, e := range ents {
				if e.Name == "." || e.Name == ".." {
					continue
				}
				l := Exec(srv, Op{K: "LOOKUP", N: e.Name}, fh, nil)
				if !l.OK() {
					w("%s/%s LOOKUP st=%d\n", path, e.Name, l.Status)
					continue
				}
				walk(path+"/"+e.Name, l.FH, depth+1)
			}
		}
	}
	walk("", RootFH(), 0)
	return string(b)
}
