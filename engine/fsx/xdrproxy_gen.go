// Code generated; DO NOT EDIT.
package fsx

import (
	"fmt"

	"github.com/mit-pdos/go-nfsd/nfstypes"
	"github.com/zeldovich/go-rpcgen/xdr"
)

// XDRProxy implements the NFS handler interface by going through the wire
// path: the arguments are XDR-encoded, dispatched by procedure number through
// the registration table of the real server, and the XDR-encoded result is
// decoded again.  A transport-level failure (no registration, GARBAGE_ARGS,
// un-decodable reply) panics: the sequential checks then report it.
type XDRProxy struct {
	regs  map[uint32]func(*xdr.XdrState) (xdr.Xdrable, error)
	Calls int64
}

func NewXDRProxy(h nfstypes.NFS_PROGRAM_NFS_V3_handler) *XDRProxy {
	p := &XDRProxy{regs: map[uint32]func(*xdr.XdrState) (xdr.Xdrable, error){}}
	for _, r := range nfstypes.NFS_PROGRAM_NFS_V3_regs(h) {
		if r.Prog == nfstypes.NFS_PROGRAM && r.Vers == nfstypes.NFS_V3 {
			p.regs[r.Proc] = r.Handler
		}
	}
	return p
}

func (p *XDRProxy) call(proc uint32, args xdr.Xdrable, res xdr.Xdrable) {
	p.Calls++
	h := p.regs[proc]
	if h == nil {
		panic(fmt.Sprintf("xdr transport: procedure %d is not registered (PROC_UNAVAIL)", proc))
	}
	var buf []byte
	if args != nil {
		b, err := xdr.EncodeBuf(args)
		if err != nil {
			panic(fmt.Sprintf("xdr transport: procedure %d: arguments cannot be encoded: %v", proc, err))
		}
		buf = b
	}
	out, err := h(xdr.MakeReader(buf))
	if err != nil {
		panic(fmt.Sprintf("xdr transport: procedure %d: server rejected its own client's arguments (GARBAGE_ARGS): %v", proc, err))
	}
	if res == nil {
		return
	}
	rb, err := xdr.EncodeBuf(out)
	if err != nil {
		panic(fmt.Sprintf("xdr transport: procedure %d: reply cannot be encoded: %v", proc, err))
	}
	if err := xdr.DecodeBuf(rb, res); err != nil {
		panic(fmt.Sprintf("xdr transport: procedure %d: reply cannot be decoded: %v", proc, err))
	}
}

func (p *XDRProxy) NFSPROC3_NULL() { p.call(nfstypes.NFSPROC3_NULL, nil, nil) }

func (p *XDRProxy) NFSPROC3_GETATTR(a nfstypes.GETATTR3args) (r nfstypes.GETATTR3res) {
	p.call(nfstypes.NFSPROC3_GETATTR, &a, &r)
	return
}

func (p *XDRProxy) NFSPROC3_SETATTR(a nfstypes.SETATTR3args) (r nfstypes.SETATTR3res) {
	p.call(nfstypes.NFSPROC3_SETATTR, &a, &r)
	return
}

func (p *XDRProxy) NFSPROC3_LOOKUP(a nfstypes.LOOKUP3args) (r nfstypes.LOOKUP3res) {
	p.call(nfstypes.NFSPROC3_LOOKUP, &a, &r)
	return
}

func (p *XDRProxy) NFSPROC3_ACCESS(a nfstypes.ACCESS3args) (r nfstypes.ACCESS3res) {
	p.call(nfstypes.NFSPROC3_ACCESS, &a, &r)
	return
}

func (p *XDRProxy) NFSPROC3_READLINK(a nfstypes.READLINK3args) (r nfstypes.READLINK3res) {
	p.call(nfstypes.NFSPROC3_READLINK, &a, &r)
	return
}

func (p *XDRProxy) NFSPROC3_READ(a nfstypes.READ3args) (r nfstypes.READ3res) {
	p.call(nfstypes.NFSPROC3_READ, &a, &r)
	return
}

func (p *XDRProxy) NFSPROC3_WRITE(a nfstypes.WRITE3args) (r nfstypes.WRITE3res) {
	p.call(nfstypes.NFSPROC3_WRITE, &a, &r)
	return
}

func (p *XDRProxy) NFSPROC3_CREATE(a nfstypes.CREATE3args) (r nfstypes.CREATE3res) {
	p.call(nfstypes.NFSPROC3_CREATE, &a, &r)
	return
}

func (p *XDRProxy) NFSPROC3_MKDIR(a nfstypes.MKDIR3args) (r nfstypes.MKDIR3res) {
	p.call(nfstypes.NFSPROC3_MKDIR, &a, &r)
	return
}

func (p *XDRProxy) NFSPROC3_SYMLINK(a nfstypes.SYMLINK3args) (r nfstypes.SYMLINK3res) {
	p.call(nfstypes.NFSPROC3_SYMLINK, &a, &r)
	return
}

func (p *XDRProxy) NFSPROC3_MKNOD(a nfstypes.MKNOD3args) (r nfstypes.MKNOD3res) {
	p.call(nfstypes.NFSPROC3_MKNOD, &a, &r)
	return
}

func (p *XDRProxy) NFSPROC3_REMOVE(a nfstypes.REMOVE3args) (r nfstypes.REMOVE3res) {
	p.call(nfstypes.NFSPROC3_REMOVE, &a, &r)
	return
}

func (p *XDRProxy) NFSPROC3_RMDIR(a nfstypes.RMDIR3args) (r nfstypes.RMDIR3res) {
	p.call(nfstypes.NFSPROC3_RMDIR, &a, &r)
	return
}

func (p *XDRProxy) NFSPROC3_RENAME(a nfstypes.RENAME3args) (r nfstypes.RENAME3res) {
	p.call(nfstypes.NFSPROC3_RENAME, &a, &r)
	return
}

func (p *XDRProxy) NFSPROC3_LINK(a nfstypes.LINK3args) (r nfstypes.LINK3res) {
	p.call(nfstypes.NFSPROC3_LINK, &a, &r)
	return
}

func (p *XDRProxy) NFSPROC3_READDIR(a nfstypes.READDIR3args) (r nfstypes.READDIR3res) {
	p.call(nfstypes.NFSPROC3_READDIR, &a, &r)
	return
}

func (p *XDRProxy) NFSPROC3_READDIRPLUS(a nfstypes.READDIRPLUS3args) (r nfstypes.READDIRPLUS3res) {
	p.call(nfstypes.NFSPROC3_READDIRPLUS, &a, &r)
	return
}

func (p *XDRProxy) NFSPROC3_FSSTAT(a nfstypes.FSSTAT3args) (r nfstypes.FSSTAT3res) {
	p.call(nfstypes.NFSPROC3_FSSTAT, &a, &r)
	return
}

func (p *XDRProxy) NFSPROC3_FSINFO(a nfstypes.FSINFO3args) (r nfstypes.FSINFO3res) {
	p.call(nfstypes.NFSPROC3_FSINFO, &a, &r)
	return
}

func (p *XDRProxy) NFSPROC3_PATHCONF(a nfstypes.PATHCONF3args) (r nfstypes.PATHCONF3res) {
	p.call(nfstypes.NFSPROC3_PATHCONF, &a, &r)
	return
}

func (p *XDRProxy) NFSPROC3_COMMIT(a nfstypes.COMMIT3args) (r nfstypes.COMMIT3res) {
	p.call(nfstypes.NFSPROC3_COMMIT, &a, &r)
	return
}
