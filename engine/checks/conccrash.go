package checks

import (
	"fmt"
	"sort"
	"strings"

	"github.com/mit-pdos/go-journal/vrt"
	"verif/crash"
	"verif/lin"
	"verif/vdisk"
)

// ---- crash in the middle of a concurrent execution (durable linearizability) ----
//
// One execution of a concurrent harness is recorded on the disk, with an "inv" marker before and an "ack"
// marker after every operation.  For every crash image of that trace, at every cut position at which the
// image is possible: the *updates* acknowledged before the cut (with the replies they got), any subset of
// the updates invoked but not yet acknowledged (whatever they would have replied), and the observation of
// the recovered store must together be linearizable.  So an acknowledged update must be there whatever else
// was going on, and pending ones apply entirely or not at all.  Reads are left out: the properties promise
// durability of an update once *it* has returned, not once somebody has seen it (the unchanged kvs lets a Get
// see a put that is committed in memory and not yet on disk; demanding more was a false alarm of this check).

type ccAny struct{}

type ccOp struct {
	Client   int
	In, Out  interface{}
	Inv, Ack int // positions of the markers in the disk log (Ack < 0: never acknowledged)
}

// ccModel lets a pending operation take effect with whatever reply.
type ccModel struct {
	m    lin.Model
	zero interface{} // a reply value of the right type
}

func (w ccModel) Clone() lin.Model { return ccModel{w.m.Clone(), w.zero} }
func (w ccModel) Step(in, out interface{}) bool {
	if _, any := out.(ccAny); any {
		w.m.Step(in, w.zero) // applied; the reply is not compared
		return true
	}
	return w.m.Step(in, out)
}

// ccOpsFromLog pairs the markers of the log with the recorded operations (ids are indices into ops).
func ccPositions(log []vdisk.Event, ops []ccOp) {
	for i := range ops {
		ops[i].Inv, ops[i].Ack = -1, -1
	}
	for p, e := range log {
		if e.Kind != vdisk.EvMark || e.Op < 0 || e.Op >= len(ops) {
			continue
		}
		switch e.Mark {
		case "inv":
			ops[e.Op].Inv = p
		case "ack":
			ops[e.Op].Ack = p
		}
	}
}

type ccStats struct {
	Images, Recoveries, Configs, Cached int64
	Capped                              int
}

// verdict cache per worker process: the same image with the same acknowledged / pending operations recurs in
// most schedules of a harness
var ccCache = map[string]string{}

// concCrashCheck returns the first violation (signature, detail) or "".
func concCrashCheck(name string, base *vdisk.Image, log []vdisk.Event, ops []ccOp, init lin.Model, zero interface{},
	recoverObs func(img *vdisk.Image, pol int) ([]lin.Op, *vrt.Result), show func(in, out interface{}) string, isUpdate func(in interface{}) bool, capProduct int, st *ccStats) (string, string) {
	cr := crash.Enumerate(base, log, capProduct)
	st.Capped += cr.Stats.CappedEpochs
	const big = 1 << 40
	for _, im := range cr.Images {
		st.Images++
		// distinct (acknowledged, pending) configurations over the cuts at which this image is possible
		type cfgT struct {
			acked, pending []int
			cut            int
		}
		cfgs := map[string]cfgT{}
		for _, rg := range im.Ranges {
			for p := rg.PMin; p <= rg.PMax; p++ {
				var c cfgT
				c.cut = p
				for i, o := range ops {
					if !isUpdate(o.In) {
						continue
					}
					switch {
					case o.Ack >= 0 && o.Ack < p:
						c.acked = append(c.acked, i)
					case o.Inv >= 0 && o.Inv < p:
						c.pending = append(c.pending, i)
					}
				}
				k := fmt.Sprint(c.acked, c.pending)
				if _, ok := cfgs[k]; !ok {
					cfgs[k] = c
				}
			}
		}
		var keys []string
		for k := range cfgs {
			keys = append(keys, k)
		}
		sort.Strings(keys)
		for pol := 0; pol < 2; pol++ {
			var obs []lin.Op
			recovered := false
			for _, k := range keys {
				c := cfgs[k]
				st.Configs++
				var desc []string
				for _, i := range c.acked {
					desc = append(desc, fmt.Sprintf("%d:%s", ops[i].Client, show(ops[i].In, ops[i].Out)))
				}
				ck := fmt.Sprintf("%s|%x|%d|%s|%v|%s", name, im.Key, pol, strings.Join(desc, ";"), pendingIns(ops, c.pending, show), orderSig(ops, c.acked, c.pending))
				if v, ok := ccCache[ck]; ok {
					st.Cached++
					if v != "" {
						return "conc-crash|" + name, v
					}
					continue
				}
				if !recovered {
					var res *vrt.Result
					obs, res = recoverObs(im.Img, pol)
					st.Recoveries++
					recovered = true
					if res.Verdict != vrt.VOK {
						return "conc-crash|recovery|" + vrt.VerdictNames[res.Verdict], fmt.Sprintf("harness %s, image %s: recovery: %s\n%s", name, im.Desc, res.Msg, res.Stack)
					}
				}
				ok := false
				for mask := 0; mask < 1<<len(c.pending) && !ok; mask++ {
					var h []lin.Op
					for _, i := range c.acked {
						h = append(h, lin.Op{Client: ops[i].Client, Inv: ops[i].Inv, Ret: ops[i].Ack, In: ops[i].In, Out: ops[i].Out})
					}
					for bi, i := range c.pending {
						if mask&(1<<bi) != 0 {
							h = append(h, lin.Op{Client: ops[i].Client, Inv: ops[i].Inv, Ret: big, In: ops[i].In, Out: ccAny{}})
						}
					}
					for j, o := range obs {
						o.Inv, o.Ret = big+1+j, big+1+j
						h = append(h, o)
					}
					ok, _ = lin.Check(ccModel{init.Clone(), zero}, h)
				}
				verdict := ""
				if !ok {
					var ob []string
					for _, o := range obs {
						ob = append(ob, show(o.In, o.Out))
					}
					verdict = fmt.Sprintf("harness %s, crash image %s possible at cut %d of the trace of one schedule (recovery policy %d)\nacknowledged before the cut: %s\ninvoked, not acknowledged: %v\nrecovered: %s\nno order of the acknowledged operations and any subset of the pending ones explains the recovered state",
						name, im.Desc, c.cut, pol, strings.Join(desc, "; "), pendingIns(ops, c.pending, show), strings.Join(ob, "; "))
				}
				ccCache[ck] = verdict
				if verdict != "" {
					return "conc-crash|" + name, verdict
				}
			}
		}
	}
	return "", ""
}

func pendingIns(ops []ccOp, idx []int, show func(in, out interface{}) string) []string {
	var s []string
	for _, i := range idx {
		s = append(s, fmt.Sprintf("%d:%s", ops[i].Client, show(ops[i].In, nil)))
	}
	return s
}

// orderSig: the real-time order of the invocations and acknowledgements involved
func orderSig(ops []ccOp, acked, pending []int) string {
	type ev struct {
		pos int
		s   string
	}
	var evs []ev
	for _, i := range acked {
		evs = append(evs, ev{ops[i].Inv, fmt.Sprintf("i%d", i)}, ev{ops[i].Ack, fmt.Sprintf("a%d", i)})
	}
	for _, i := range pending {
		evs = append(evs, ev{ops[i].Inv, fmt.Sprintf("i%d", i)})
	}
	sort.Slice(evs, func(a, b int) bool { return evs[a].pos < evs[b].pos })
	var sb strings.Builder
	for _, e := range evs {
		sb.WriteString(e.s)
	}
	return sb.String()
}
