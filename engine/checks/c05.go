package checks

import (
	"fmt"

	"github.com/mit-pdos/go-journal/vrt"
	"verif/fsx"
	"verif/reffs"
	"verif/report"
)

// ---- C05: freed space is fully reclaimed, in memory and on disk ----

func c05Alphabet() []fsx.Op {
	return []fsx.Op{
		{K: "CREATE", H: "root", N: "a"}, {K: "MKDIR", H: "root", N: "d"}, {K: "CREATE", H: "root/d", N: "a"}, {K: "MKDIR", H: "root/d", N: "e"}, {K: "CREATE", H: "root/d/e", N: "x"},
		{K: "SYMLINK", H: "root", N: "s", Target: "target"},
		{K: "WRITE", H: "root/a", Off: 0, Cnt: 4096, Pat: 0x61, Stable: 2},
		{K: "WRITE", H: "root/a", Off: 0, Cnt: 9 * 4096, Pat: 0x62, Stable: 2},
		{K: "WRITE", H: "root/d/a", Off: 600 * 4096, Cnt: 1, Pat: 0x63, Stable: 2},
		{K: "WRITE", H: "root/d/a", Off: 100, Cnt: 50, Pat: 0x64, Stable: 0},
		{K: "READ", H: "root/d/a", Off: 300 * 4096, Cnt: 8192}, // across a hole: materialises it
		{K: "SETATTR", H: "root/a", Size: 100}, {K: "SETATTR", H: "root/a", Size: 20 * 4096}, {K: "SETATTR", H: "root/d/a", Size: 0},
		{K: "RENAME", H: "root/d", N: "a", H2: "root", N2: "a"}, // file over file
		{K: "RENAME", H: "root", N: "a", H2: "root/d", N2: "a"}, // ... and the other way: the replaced file may be the 600-block one, freed in the background
		{K: "RENAME", H: "root", N: "d", H2: "root", N2: "d2"},
		{K: "MKDIR", H: "root", N: "d2"},
		{K: "RENAME", H: "root", N: "d", H2: "root", N2: "d2", As: "x"},       // directory over empty directory (if d2 is empty)
		{K: "CREATE", H: "root", N: nameOfLen(200, 'z')},                      // refused
		{K: "MKDIR", H: "root", N: nameOfLen(200, 'y')},                       // refused after a block for ./.. was allocated
		{K: "SYMLINK", H: "root", N: nameOfLen(200, 'x'), Target: "t"},        // refused after the target block was allocated
		{K: "RENAME", H: "root", N: "a", H2: "root", N2: nameOfLen(200, 'z')}, // refused after lookup
		{K: "REMOVE", H: "root", N: "a"}, {K: "REMOVE", H: "root/d", N: "a"}, {K: "REMOVE", H: "root/d/e", N: "x"}, {K: "RMDIR", H: "root/d", N: "e"}, {K: "RMDIR", H: "root", N: "d"}, {K: "REMOVE", H: "root", N: "s"},
		{K: "REMOVE", H: "root/d", N: "e"}, // REMOVE of a directory (accepted if empty)
		{K: "RESTART"},
		{K: "SHRINKCRASH"}, // the server's Crash(): background freeing stops half-way, restart
		{K: "DELETEALL"},
	}
}

func c05After(w *World, path []fsx.Op, r fsx.Reply, implFail bool, mis *reffs.Mismatch, viol func(sig, detail string)) {
	if mis != nil && path[len(path)-1].K == "DELETEALL" {
		viol("deleteall|"+mis.Rule, mis.Msg)
		return
	}
	vrt.Quiesce() // background freeing finishes (scheduler waiting, no sleeping)
	if w.Srv.VerifShrinker().VerifNThread() != 0 {
		viol("shrinker-not-idle", "shrinker threads still registered at quiescence")
	}
	fr := w.Fsck()
	crashed := false
	for _, o := range path {
		if o.K == "SHRINKCRASH" {
			crashed = true
		}
	}
	if crashed {
		// a crash in the middle of freeing: a half-freed object may hold blocks until its number is reused or
		// touched - so touch every survivor and hand out the half-freed numbers again first (as after a crash image)
		for _, e := range reclaimAfterRecovery(w, fr) {
			viol("after-crash|"+ruleOf(e), e)
		}
	} else {
		for _, e := range fr.Reclaim() {
			viol("reclaim|"+ruleOf(e), e)
		}
		for _, e := range w.Audit(fr) {
			if rl := ruleOf(e); rl == "balloc-differs-from-disk" || rl == "ialloc-differs-from-disk" {
				viol("reclaim|"+rl, e)
			}
		}
	}
	if path[len(path)-1].K == "DELETEALL" {
		b, i := w.FreeCounts()
		// (a directory never gives its own blocks back while it exists, and the root always exists: what it grew to
		// beyond its first block - more than 30 names at once - stays in use and reachable; everything else must be free)
		fr5 := w.Fsck()
		rootBlocks := uint64(0)
		for _, owner := range fr5.Owned {
			if owner == 1 {
				rootBlocks++
			}
		}
		if b+rootBlocks != w.FreshB+1 || i != w.FreshI {
			viol("deleteall|free-space-not-restored", fmt.Sprintf("after deleting everything %d blocks and %d inodes are free (the root directory holds %d blocks); the fresh file system had %d and %d (root directory: 1 block)", b, i, rootBlocks, w.FreshB, w.FreshI))
		}
	}
}

var big530Setup = func() []fsx.Op {
	s := []fsx.Op{{K: "CREATE", H: "root", N: "big"}, {K: "CREATE", H: "root", N: "keep"}, {K: "WRITE", H: "root/keep", Off: 0, Cnt: 5000, Pat: 0x71, Stable: 2}}
	for i := 0; i < 6; i++ {
		n := uint64(100)
		if i == 5 {
			n = 30
		}
		s = append(s, fsx.Op{K: "WRITE", H: "root/big", Off: uint64(i) * 100 * 4096, Cnt: n * 4096, Pat: byte(0x72 + i), Stable: 2})
	}
	return s
}()

// on a disk with 10 free data blocks: allocations that fail half-way and blocks freed in the transaction that allocated them
func c05TinyAlphabet() []fsx.Op {
	return []fsx.Op{
		{K: "CREATE", H: "root", N: "a"}, {K: "CREATE", H: "root", N: "b"}, {K: "MKDIR", H: "root", N: "d"}, {K: "SYMLINK", H: "root", N: "s", Target: "target"},
		{K: "WRITE", H: "root/a", Off: 0, Cnt: 7 * 4096, Pat: 0x61, Stable: 2}, {K: "WRITE", H: "root/a", Off: 7 * 4096, Cnt: 2 * 4096, Pat: 0x62, Stable: 2},
		{K: "WRITE", H: "root/a", Off: 8 * 4096, Cnt: 10, Pat: 0x63, Stable: 0}, {K: "WRITE", H: "root/b", Off: 0, Cnt: 3 * 4096, Pat: 0x64, Stable: 2},
		{K: "WRITE", H: "root/b", Off: (8 + 512) * 4096, Cnt: 1, Pat: 0x65, Stable: 2}, {K: "READ", H: "root/b", Off: 0, Cnt: 8 * 4096},
		{K: "SETATTR", H: "root/a", Size: 100}, {K: "SETATTR", H: "root/a", Size: 0}, {K: "SETATTR", H: "root/b", Size: 20 * 4096},
		{K: "REMOVE", H: "root", N: "a"}, {K: "REMOVE", H: "root", N: "b"}, {K: "RMDIR", H: "root", N: "d"}, {K: "REMOVE", H: "root", N: "s"},
		{K: "RESTART"}, {K: "DELETEALL"},
	}
}

// from the state with the inode table exhausted: 32765 files in one directory of 1024 blocks (its own block tree
// reaches the double-indirect level); deleting everything frees that directory in the background
func c05InodeAlphabet() []fsx.Op {
	return []fsx.Op{
		{K: "REMOVE", H: "root/bulk", N: "f16000"}, {K: "CREATE", H: "root", N: "n1"}, {K: "MKDIR", H: "root/d", N: "n2"},
		{K: "RENAME", H: "root/bulk", N: "f00000", H2: "root/bulk", N2: "f00001"}, {K: "RENAME", H: "root", N: "a", H2: "root/bulk", N2: "f32700"},
		{K: "REMOVETHIRD", H: "root/bulk"}, {K: "RESTART"}, {K: "SHRINKCRASH"}, {K: "DELETEALL"},
	}
}

// from a state that already has a file whose freeing takes background transactions (700 blocks long, sparse) and
// a small one: every way of dropping the big one, interrupted or not, followed by reuse
var c05BigSetup = []fsx.Op{{K: "MKDIR", H: "root", N: "d"}, {K: "CREATE", H: "root/d", N: "a"}, {K: "WRITE", H: "root/d/a", Off: 700 * 4096, Cnt: 1, Pat: 0x63, Stable: 2},
	{K: "WRITE", H: "root/d/a", Off: 0, Cnt: 3 * 4096, Pat: 0x64, Stable: 2}, {K: "CREATE", H: "root", N: "a"}, {K: "WRITE", H: "root/a", Off: 0, Cnt: 5000, Pat: 0x65, Stable: 2}}

func c05BigAlphabet() []fsx.Op {
	return []fsx.Op{
		{K: "RENAME", H: "root", N: "a", H2: "root/d", N2: "a"}, // the replaced file is the big one
		{K: "RENAME", H: "root/d", N: "a", H2: "root", N2: "a"},
		{K: "REMOVE", H: "root/d", N: "a"}, {K: "SETATTR", H: "root/d/a", Size: 0}, {K: "SETATTR", H: "root/d/a", Size: 4096 + 100}, {K: "SETATTR", H: "root/d/a", Size: 800 * 4096},
		{K: "WRITE", H: "root/d/a", Off: 4000, Cnt: 5000, Pat: 0x66, Stable: 2}, {K: "READ", H: "root/d/a", Off: 0, Cnt: 3 * 4096},
		{K: "CREATE", H: "root", N: "n"}, {K: "MKDIR", H: "root", N: "m"}, {K: "REMOVE", H: "root", N: "a"},
		{K: "RESTART"}, {K: "SHRINKCRASH"}, {K: "DELETEALL"},
	}
}

func init() {
	RegisterSeq("c05.big", &SeqSpec{Prop: "C05", DiskSize: 2200, Setup: c05BigSetup, Alphabet: c05BigAlphabet(), After: c05After,
		Key: func(w *World) string { w.Probe = crashProbe; return w.defaultKey() }})
	RegisterSeq("c05.inodes", &SeqSpec{Prop: "C05", Prep: "inofull", Alphabet: c05InodeAlphabet(), After: c05After, AllowImplFail: true})
	RegisterSeq("c05.tiny", &SeqSpec{Prop: "C05", DiskSize: 1539 + 1 + 10, Alphabet: c05TinyAlphabet(), After: c05After, AllowImplFail: true})
	Checks["C05"] = C05
	// a file of 506 blocks of data: its truncation / removal takes the in-transaction path, which runs out of journal
	// space a few blocks before the end - the rest must still be given back (nobody crashed)
	RegisterSeq("c05.window", &SeqSpec{Prop: "C05", DiskSize: 3000, Setup: c12WindowSetup, After: c05After,
		Key: func(w *World) string { w.Probe = &fsx.Probe{Full: 4 << 20}; return w.defaultKey() },
		Alphabet: []fsx.Op{{K: "SETATTR", H: "root/f", Size: 0}, {K: "SETATTR", H: "root/f", Size: 2*4096 + 5}, {K: "REMOVE", H: "root", N: "f"}, {K: "CREATE", H: "root", N: "g"},
			{K: "RENAME", H: "root", N: "g", H2: "root", N2: "f"}, {K: "WRITE", H: "root/f", Off: 3 * 4096, Cnt: 10, Pat: 0x71, Stable: 2}, {K: "RESTART"}, {K: "DELETEALL"}}})
	RegisterSeq("c05.seq", &SeqSpec{Prop: "C05", DiskSize: 2200, Alphabet: c05Alphabet(), After: c05After,
		Key: func(w *World) string { w.Probe = crashProbe; return w.defaultKey() }})
}

func C05(r *report.Report, tier string) {
	depth, bound, maxImg := 3, 1, 150
	if tier == "thorough" {
		depth, bound, maxImg = 4, 2, 0
	}
	r.Only = map[string]bool{"C05": true}
	r.Rule = fmt.Sprintf("(i) breadth-first search to depth %d over a %d-symbol build/delete alphabet (files of every size class, sparse file freed in the background, hole filled by a read, shrink/grow, renames over existing targets, refused operations, restart, delete-everything) on a 2200-block disk, and a second search on a disk with 10 free data blocks (allocations that fail half-way, short writes, holes filled without space), and a third (depth one less) from the state with the inode table exhausted - 32765 files in one directory of 1024 blocks, freed in the background when everything is deleted, and a fourth from a state with a 700-block sparse file (every way of dropping it - removal, truncation, being the target of a rename - interrupted by the server's own Crash() or not, followed by reuse; after a Crash() the survivors are touched and the half-freed inode numbers handed out again before the audit): after every transition the shrinkers run to completion under the scheduler and the audit demands blocks/inodes marked in use == reachable from the root, in-memory allocators == on-disk bitmaps, and after delete-everything the free counts of the fresh file system; (ii) every crash image (cap %d per history in quick) of histories that remove / truncate a 530-block file freed by several background transactions: after recovery every survivor is touched, files are created until every half-freed inode number has been handed out again, then the same audit; (iii) schedules (<=%d deviations) of the concurrent free harnesses with the audit at the end", depth, len(c05Alphabet()), maxImg, bound)
	s1 := RunSeq(r, "c05.seq", depth)
	s2 := RunSeq(r, "c05.tiny", depth+1)
	s3 := RunSeq(r, "c05.inodes", depth-1)
	s4 := RunSeq(r, "c05.big", depth)
	s5 := RunSeq(r, "c05.window", depth)
	r.Extra["searches"] = []*SeqSummary{s1, s2, s3, s4, s5}
	var jobs []crashArg
	for _, h := range [][]fsx.Op{
		{{K: "REMOVE", H: "root", N: "big"}},
		{{K: "SETATTR", H: "root/big", Size: 0}},
		{{K: "SETATTR", H: "root/big", Size: 0}, {K: "REMOVE", H: "root", N: "big"}},
		{{K: "SETATTR", H: "root/big", Size: 4096 * 3}, {K: "WRITE", H: "root/keep", Off: 0, Cnt: 4096, Pat: 0x7f, Stable: 2}},
	} {
		jobs = append(jobs, crashArg{Prop: "C05", DiskSize: 3000, Setup: big530Setup, Ops: h, Cap: 64, Reclaim: true, MaxImages: maxImg,
			Probe: &fsx.Probe{Full: 4 << 20}})
	}
	runCrashJobs(r, jobs, map[string]bool{"C05": true, "C01": false})
	for _, h := range concHarnesses() {
		if h.Name != "truncate-write-remove-big" && h.Name != "removebig-create-reuse" && h.Name != "write-remove" && h.Name != "truncate-nonzero-remove-big" {
			continue
		}
		h.Prefer = "C05"
		s := ExploreAll(r, "nfs.conc", h, bound, vrt.PUnlock, false)
		r.Sample(map[string]interface{}{"harness": h.Name, "executions": s.Execs})
	}
	r.Extra["bounds"] = map[string]int{"depth": depth, "deviations": bound}
}
