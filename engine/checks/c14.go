package checks

import (
	"fmt"
	"os"
	"path/filepath"
	"time"

	"github.com/mit-pdos/go-journal/vrt"
	"verif/fsx"
	"verif/par"
	"verif/report"
)

// ---- C14: no data races (Go race detector as a per-execution happens-before oracle) ----

func init() { Checks["C14"] = C14 }

func c14Extra() []concArg {
	big := []fsx.Op{{K: "CREATE", H: "root", N: "big"}, {K: "WRITE", H: "root/big", Off: 600 * 4096, Cnt: 1, Pat: 0x31, Stable: 2}}
	return []concArg{
		{Name: "shutdown-while-shrinking", DiskSize: 3000, Setup: big, Clients: [][]fsx.Op{
			{{K: "REMOVE", H: "root", N: "big"}, {K: "SHUTDOWN"}}, {{K: "GETATTR", H: "root"}}}},
		{Name: "crash-while-shrinking", DiskSize: 3000, Setup: big, Clients: [][]fsx.Op{
			{{K: "REMOVE", H: "root", N: "big"}, {K: "SRVCRASH"}}, {{K: "GETATTR", H: "root"}}}},
		{Name: "crash-while-helping-to-shrink", DiskSize: 3000, Setup: big, Clients: [][]fsx.Op{
			{{K: "SETATTR", H: "root/big", Size: 3 * 4096}, {K: "SRVCRASH"}}, {{K: "WRITE", H: "root/big", Off: 0, Cnt: 10, Pat: 0x34, Stable: 2}}}},
		{Name: "stats-during-rpcs", DiskSize: 3000, Setup: []fsx.Op{{K: "CREATE", H: "root", N: "a"}}, Clients: [][]fsx.Op{
			{{K: "STATS"}}, {{K: "GETATTR", H: "root/a"}, {K: "WRITE", H: "root/a", Off: 0, Cnt: 10, Pat: 1, Stable: 2}}, {{K: "LOOKUP", H: "root", N: "a"}}}},
	}
}

func C14(r *report.Report, tier string) {
	bound := 1
	if tier == "thorough" {
		bound = 2
	}
	exe := filepath.Join(Root, "engine", "bin", "vcheck-race")
	if _, err := os.Stat(exe); err != nil {
		fatal("race build %s missing (scripts/build.sh race)", exe)
	}
	logdir := filepath.Join(Root, ".build", "race")
	os.RemoveAll(logdir)
	os.MkdirAll(logdir, 0o755)
	ExploreWorkers = par.Options{Exe: exe, Env: []string{"GORACE=log_path=" + filepath.Join(logdir, "r") + " halt_on_error=0"}}
	defer func() { ExploreWorkers = par.Options{} }()
	r.Only = map[string]bool{"C14": true}
	hs := append(concHarnesses(), c14Extra()...)
	r.Rule = fmt.Sprintf("the %d C03 harnesses plus shutdown / Crash() while a shrinker runs or a request helps it, and statistics during RPCs, every schedule with <=%d deviations, executed in a -race build in which the scheduler hands control between goroutines through a //go:norace spin on a plain word (no happens-before edge of its own): the race detector then sees exactly the program's synchronisation (its mutexes, goroutine creation, atomics) and judges each execution; a report counts if both access stacks lie in go-nfsd/go-journal code. distinct_nontrivial = distinct observable outcomes over all harnesses", len(hs)-len(c14Extra()), bound)
	var sums []*ExploreSummary
	for hi, h := range hs {
		fairShare(hi, len(hs))
		if timeUp() {
			r.Exhaustive = false
			r.Note("harness %s not run (time budget)", h.Name)
			continue
		}
		h.NoLin = true
		s := ExploreAll(r, "nfs.conc", h, bound, vrt.PUnlock|vrt.PDiskW, false)
		s.Harness = h.Name
		for k := range s.Outcomes {
			r.Distinct(h.Name + "|" + k)
		}
		r.Sample(map[string]interface{}{"harness": h.Name, "executions": s.Execs, "distinct_outcomes": len(s.Outcomes)})
		s.Outcomes = map[string]int64{"(distinct outcomes)": int64(len(s.Outcomes))}
		sums = append(sums, s)
	}
	HarnessDeadline = time.Time{}
	r.Extra["harnesses"] = sums
	r.Extra["bounds"] = map[string]int{"deviations": bound}
	r.Assumptions = append(r.Assumptions, "the race detector's happens-before analysis (no weak-memory effects beyond it)", "workers run with GOMAXPROCS=1")
}
