package checks

import (
	"encoding/json"
	"fmt"

	"github.com/mit-pdos/go-journal/vrt"
	"verif/fsx"
	"verif/par"
	"verif/report"
)

// ---- C07: unstable-write contract ----

var c07Setup = []fsx.Op{
	{K: "CREATE", H: "root", N: "f"},
	{K: "CREATE", H: "root", N: "g"},
}

func c07Alphabet() []fsx.Op {
	var al []fsx.Op
	pat := byte(0x20)
	for _, f := range []string{"root/f", "root/g"} {
		for st := 0; st <= 2; st++ {
			pat++
			al = append(al, fsx.Op{K: "WRITE", H: f, Off: 0, Cnt: 4096, Pat: pat, Stable: st})
			pat++
			al = append(al, fsx.Op{K: "WRITE", H: f, Off: 4096, Cnt: 8192, Pat: pat, Stable: st})
		}
		al = append(al, fsx.Op{K: "COMMIT", H: f})
	}
	al = append(al, fsx.Op{K: "CREATE", H: "root", N: "c"}, fsx.Op{K: "SETATTR", H: "root/f", Size: 100})
	// the same bytes again with a stronger stability level (the first f symbol is the UNSTABLE write of pattern 0x21 at 0;
	// a write that changes no byte is acknowledged like any other), and a write inside a block
	al = append(al, fsx.Op{K: "WRITE", H: "root/f", Off: 0, Cnt: 4096, Pat: 0x21, Stable: 2}, fsx.Op{K: "WRITE", H: "root/f", Off: 100, Cnt: 50, Pat: 0x3a, Stable: 0},
		fsx.Op{K: "WRITE", H: "root/f", Off: 100, Cnt: 50, Pat: 0x3a, Stable: 2})
	// attribute changes without a size (a stable operation like any other: it and everything before it survive)
	al = append(al, fsx.Op{K: "SETATTR", H: "root/f", NoSize: true, Mtime: 777}, fsx.Op{K: "SETATTR", H: "root/g", NoSize: true, Atime: 888, Mtime: 999})
	return al
}

// clean restart scenario: unstable data may be lost only as a suffix, and the verifier changes
type c07RestartArg struct {
	Ops []fsx.Op `json:"ops"`
}

func c07RestartJob(raw json.RawMessage) (interface{}, error) {
	var a c07RestartArg
	json.Unmarshal(raw, &a)
	out := &crashRes{}
	viol := func(sig, detail string) {
		out.Viols = append(out.Viols, &report.Violation{Property: "C07", Sig: sig, Detail: "history: " + fsx.Hist(a.Ops) + "; clean restart\n" + detail,
			Replay: map[string]interface{}{"job": "c07.restart", "arg": a}})
	}
	base := cachedMkfs(3000)
	res := vrt.Run(vrt.Config{}, func() {
		w := NewWorld(base)
		for _, o := range c07Setup {
			w.Do(o)
		}
		w.Flush()
		models := []map[string]fsx.Node{w.Model.Dump(w.Probe)}
		lastStable := 0
		var verf []byte
		for i, o := range a.Ops {
			if !w.Enabled(o) {
				return
			}
			r, _, mis := w.Do(o)
			out.Transitions++
			if mis != nil {
				viol("history-disagrees-with-model|"+mis.Rule+"|"+w.OpClass(o), mis.Msg)
				return
			}
			if r.OK() && !(o.K == "WRITE" && r.Committed == 0) {
				lastStable = i + 1
			}
			if r.OK() && (o.K == "WRITE" || o.K == "COMMIT") {
				verf = r.Verf
			}
			models = append(models, w.Model.Dump(w.Probe))
		}
		// clean shutdown without COMMIT, restart on the same disk
		vrt.Quiesce()
		w.Srv.ShutdownNfs()
		w2 := NewWorld(w.Disk.Snapshot())
		out.Recoveries++
		d, err := fsx.Dump(w2.Srv, w2.Probe)
		if err != nil {
			viol("restart|dump-failed", err.Error())
			return
		}
		k := -1
		for i := len(models) - 1; i >= 0; i-- {
			if diffNodes(d, models[i]) == "" {
				k = i
				break
			}
		}
		if k < lastStable {
			viol("restart|lost-not-a-suffix", fmt.Sprintf("after the restart the state equals prefix state %d; operations 1..%d were acknowledged as stable (or followed by one)", k, lastStable))
		}
		w2.Vars.Bind("root/f", w.Vars.Live["root/f"])
		r := fsx.Exec(w2.Srv, fsx.Op{K: "WRITE", Off: 0, Cnt: 10, Pat: 0x77, Stable: 0}, w.Vars.Live["root/f"], nil)
		if r.OK() && verf != nil && string(r.Verf) == string(verf) {
			viol("restart|verifier-unchanged", fmt.Sprintf("the restarted server uses the same write verifier %x although unstable data may have been lost", verf))
		}
	})
	if v := VerdictViolation(&res, "C07", "restart"); v != nil {
		viol(v.Sig, v.Detail)
	}
	return out, nil
}

func diffNodes(a, b map[string]fsx.Node) string {
	if len(a) != len(b) {
		return "different number of objects"
	}
	for p, x := range a {
		y, ok := b[p]
		if !ok || x.Kind != y.Kind || (x.Kind != 2 && x.Size != y.Size) || x.Data != y.Data || x.Target != y.Target || x.FH != y.FH ||
			(y.Mtime != 0 && x.Mtime != y.Mtime) || (y.Atime != 0 && x.Atime != y.Atime) { // (b is the reference: times a client has set)
			return p
		}
	}
	return ""
}

func init() {
	Checks["C07"] = C07
	par.Register("c07.restart", c07RestartJob)
}

func C07(r *report.Report, tier string) {
	depth, cap := 2, 256
	if tier == "thorough" {
		depth, cap = 3, 1024
	}
	al := c07Alphabet()
	r.Rule = fmt.Sprintf("every history of <=%d operations over UNSTABLE/DATA_SYNC/FILE_SYNC writes (aligned and overlapping) to two files, COMMITs and metadata operations (%d symbols), with the unstable option on and off; every written range is read back at once; every crash image of the disk trace is recovered: the state must be the reference after a prefix (in acknowledgement order) containing every operation acknowledged as stable or followed by a successful stable operation/COMMIT - a lost operation followed by a surviving one is the violation; committed >= requested (== FILE_SYNC and durable with the option off); the verifier is constant within an instance and different after recovery and after a clean restart; named histories: a request refused by the journal or the announced maximal write between an unstable write and its COMMIT, and 17 histories on a server with an inode cache of two (the written file's cached inode is evicted or dropped before the COMMIT)", depth, len(al))
	var jobs []crashArg
	for _, h := range crashHistories(al, depth) {
		hasWrite := false
		for _, o := range h {
			if o.K == "WRITE" {
				hasWrite = true
			}
		}
		if !hasWrite {
			continue
		}
		for _, nu := range []bool{false, true} {
			jobs = append(jobs, crashArg{Prop: "C07", DiskSize: 3000, Setup: c07Setup, Ops: h, Cap: cap, NoUnstable: nu, CheckVerf: true, ReadBack: true})
		}
	}
	// a request that fails only when its transaction is handed to the journal (more blocks than the journal holds)
	// between an unstable write and the COMMIT / the next stable operation
	big := fsx.Op{K: "SYMLINK", H: "root", N: "biglink", Target: nameOfLen(520*4096, 't')}
	uw := fsx.Op{K: "WRITE", H: "root/f", Off: 0, Cnt: 4096, Pat: 0x51, Stable: 0}
	for _, h := range [][]fsx.Op{
		{uw, big, {K: "COMMIT", H: "root/f"}},
		{uw, big, {K: "SETATTR", H: "root/g", NoSize: true, Mtime: 555}},
		{uw, big, {K: "WRITE", H: "root/g", Off: 0, Cnt: 10, Pat: 0x52, Stable: 0}, {K: "COMMIT", H: "root/g"}},
		{big, uw, {K: "COMMIT", H: "root/f"}},
	} {
		jobs = append(jobs, crashArg{Prop: "C07", DiskSize: 3000, Setup: c07Setup, Ops: h, Cap: cap, CheckVerf: true, ReadBack: true, ImplFail: true, Tag: "after-oversized-symlink"})
	}
	// the largest write the server announces, at an unaligned offset, between an unstable write and its COMMIT (the
	// transaction just fits into the journal; were it refused there, the history is the one above)
	for _, h := range [][]fsx.Op{
		{uw, {K: "WRITE", H: "root/g", Off: 1, Cnt: cntWtmax, Pat: 0x53, Stable: 0}, {K: "COMMIT", H: "root/f"}},
	} {
		jobs = append(jobs, crashArg{Prop: "C07", DiskSize: 3000, Setup: c07Setup, Ops: h, Cap: 16, MaxImages: 120, CheckVerf: true, ImplFail: true, Tag: "after-wtmax-write"})
	}
	// a server whose inode cache holds two inodes: every request on another object between an unstable write and its
	// COMMIT evicts the written file's cached inode, and a refused request on the file itself makes the server drop it -
	// whatever the server remembers about outstanding unstable data must not live in the cached inode alone
	for _, x := range []fsx.Op{
		{K: "CREATE", H: "root", N: "c"},
		{K: "WRITE", H: "root/g", Off: 0, Cnt: 10, Pat: 0x54, Stable: 0},
		{K: "SETATTR", H: "root/g", NoSize: true, Mtime: 556},
		{K: "LOOKUP", H: "root/f", N: "x"},
		{K: "LOOKUP", H: "root", N: "g"},
		{K: "SETATTR", H: "root/f", Size: 1 << 62},
		{K: "READ", H: "root/g", Off: 0, Cnt: 100},
		{K: "REMOVE", H: "root", N: "g"},
	} {
		for _, last := range []fsx.Op{{K: "COMMIT", H: "root/f"}, {K: "WRITE", H: "root/f", Off: 4096, Cnt: 10, Pat: 0x55, Stable: 2}} {
			jobs = append(jobs, crashArg{Prop: "C07", DiskSize: 3000, Setup: c07Setup, Ops: []fsx.Op{uw, x, last}, Cap: cap, CheckVerf: true, ReadBack: true, ICacheSz: 2, Tag: "inode-cache-of-two"})
		}
	}
	jobs = append(jobs, crashArg{Prop: "C07", DiskSize: 3000, Setup: c07Setup, Ops: []fsx.Op{uw, {K: "CREATE", H: "root", N: "c"}, {K: "CREATE", H: "root", N: "e"}, {K: "COMMIT", H: "root/f"}}, Cap: cap, CheckVerf: true, ReadBack: true, ICacheSz: 2, Tag: "inode-cache-of-two"})
	runCrashJobs(r, jobs, map[string]bool{"C07": true})
	// clean restarts
	var rj []interface{}
	hs := crashHistories(al, depth)
	for _, h := range hs {
		rj = append(rj, c07RestartArg{Ops: h})
	}
	par.Map("c07.restart", rj, par.Options{}, func(i int, res *par.Result) {
		if res.Crashed || res.Err != "" {
			r.Violate(report.Violation{Sig: "worker-died|restart", Detail: res.Err + tail(res.Stderr, 2000)})
			return
		}
		var x crashRes
		json.Unmarshal(res.Out, &x)
		r.Add("transitions", x.Transitions)
		r.Add("traces_validated_against_impl", 1)
		r.Add("clean_restarts", x.Recoveries)
		for _, v := range x.Viols {
			r.Violate(*v)
		}
	})
	r.Add("states", int64(r.NDistinct()))
	r.Extra["bounds"] = map[string]int{"depth": depth, "loss_product_cap": cap}
}
