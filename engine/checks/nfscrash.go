package checks

import (
	"crypto/sha256"
	"encoding/json"
	"fmt"
	"sort"

	"github.com/mit-pdos/go-journal/vrt"
	"github.com/mit-pdos/go-nfsd/fstxn"
	"verif/crash"
	"verif/explore"
	"verif/fsck"
	"verif/fsx"
	"verif/par"
	"verif/reffs"
	"verif/report"
	"verif/vdisk"
)

// ---- crash exploration of one NFS history (engines E3+E2), shared by C01, C04, C05, C07, C12 ----

const cntWtmax = 1 << 62

type crashArg struct {
	Prop       string     `json:"prop"` // property that owns the prefix/durability oracle (C01, C07 or C12)
	DiskSize   uint64     `json:"disk"`
	Setup      []fsx.Op   `json:"setup"`
	Ops        []fsx.Op   `json:"ops"`
	NoUnstable bool       `json:"no_unstable,omitempty"`
	Eager      bool       `json:"eager,omitempty"` // journal daemons eager (default: only when the client blocks)
	MapDesc    bool       `json:"map_desc,omitempty"`
	Cap        int        `json:"cap"`
	Nested     bool       `json:"nested,omitempty"`
	Probe      *fsx.Probe `json:"probe,omitempty"`
	Reclaim    bool       `json:"reclaim,omitempty"` // C05: touch/reuse procedure + reclaim audit after recovery
	FsckOnly   bool       `json:"fsck_only,omitempty"`
	MaxImages  int        `json:"max_images,omitempty"`
	Fresh      bool       `json:"fresh,omitempty"`      // the history starts on a blank disk: MakeNfs formats it inside the recorded trace (nothing installed yet); cuts before the first request are out of scope
	Sched      int        `json:"sched,omitempty"`      // also explore every schedule of the history run with <= Sched deviations (daemons run early), points at disk writes
	CheckVerf  bool       `json:"check_verf,omitempty"` // C07: verifier constant within an instance, different after recovery
	ReadBack   bool       `json:"read_back,omitempty"`  // C07: data of every write is readable immediately
	Tag        string     `json:"tag,omitempty"`        // prefix of every signature of this history (named histories)
	ImplFail   bool       `json:"impl_fail,omitempty"`  // the history contains a request that the implementation alone refuses (too big for the journal): it then counts as not performed
	ICacheSz   uint64     `json:"icachesz,omitempty"`   // size of the server's inode cache for the whole job (default: the scaled 100): 2 makes every request on another object evict
}

type crashRes struct {
	Transitions  int64               `json:"transitions"`
	Images       int64               `json:"images"`
	Nontrivial   int64               `json:"nontrivial"`
	Raw          int64               `json:"raw"`
	CappedEpochs int                 `json:"capped_epochs"`
	Recoveries   int64               `json:"recoveries"`
	Viols        []*report.Violation `json:"viols"`
	ImageKeys    []string            `json:"image_keys"`
	Events       int                 `json:"events"`
	Skipped      int64               `json:"skipped_images"`
	Nested       int64               `json:"nested_images"`
	Schedules    int64               `json:"schedules"`
	Traces       int64               `json:"distinct_traces"`
}

func crashJob(raw json.RawMessage) (interface{}, error) {
	var a crashArg
	if err := json.Unmarshal(raw, &a); err != nil {
		return nil, err
	}
	out := &crashRes{}
	base := cachedMkfs(a.DiskSize)
	probe := a.Probe
	if probe == nil {
		probe = fsx.DefaultProbe
	}
	viol := func(prop, sig, detail string) {
		if a.Tag != "" {
			sig = a.Tag + "|" + sig
		}
		out.Viols = append(out.Viols, &report.Violation{Property: prop, Sig: sig,
			Detail: "history: " + fsx.Hist(a.Ops) + "\n" + detail,
			Replay: map[string]interface{}{"job": "nfs.crash", "arg": a}})
	}
	vrt.MapDescending = a.MapDesc
	defer func() { vrt.MapDescending = false }()
	if a.ICacheSz != 0 {
		savedIC := fstxn.ICACHESZ
		fstxn.ICACHESZ = a.ICacheSz
		defer func() { fstxn.ICACHESZ = savedIC }()
	}
	// 1. set-up runs to a clean image (not part of the crash trace)
	var img0 *vdisk.Image
	var vars0 *fsx.Vars
	var model0 *reffs.FS
	if a.Fresh {
		base = vdisk.NewImage(a.DiskSize)
	}
	res := vrt.Run(vrt.Config{}, func() {
		if a.Fresh {
			img0, vars0, model0 = base, fsx.NewVars(), reffs.New()
			return
		}
		w := NewWorld(base)
		w.Disk.Record = false
		w.Probe = probe
		for _, o := range a.Setup {
			if _, _, mis := w.Do(o); mis != nil {
				panic(fmt.Sprintf("set-up operation %s: %v", o, mis))
			}
		}
		// a count of cntWtmax stands for the largest write the server under test announces
		for i := range a.Ops {
			if a.Ops[i].K == "WRITE" && a.Ops[i].Cnt == cntWtmax {
				fi := fsx.Exec(w.Srv, fsx.Op{K: "FSINFO"}, fsx.RootFH(), nil)
				if !fi.OK() || fi.Info["wtmax"] == 0 || fi.Info["wtmax"] > 64<<20 {
					panic(fmt.Sprintf("FSINFO: no usable wtmax (%v)", fi.Info))
				}
				a.Ops[i].Cnt = fi.Info["wtmax"]
			}
		}
		w.Flush()
		vrt.Quiesce()
		w.Srv.ShutdownNfs()
		img0 = w.Disk.Snapshot()
		vars0, model0 = w.Vars, w.Model
	})
	if v := VerdictViolation(&res, a.Prop, "set-up"); v != nil {
		viol(a.Prop, v.Sig, v.Detail)
		return out, nil
	}
	// 2. the history, recorded
	var models []*reffs.FS
	var classes []string
	var d *vdisk.Disk
	var origVerf []byte
	bad := false
	runHistory := func(prefix []int) vrt.Result {
		models, classes, origVerf = nil, nil, nil
		pts := 0
		if a.Sched > 0 {
			pts = vrt.PDiskW
		}
		return vrt.Run(vrt.Config{DaemonEager: a.Eager, KeepClock: true, Prefix: prefix, Points: pts}, func() {
			w := &World{Disk: vdisk.New(img0), Vars: vars0.Clone(), Model: model0.Clone(), Unstable: !a.NoUnstable, Probe: probe}
			w.Srv = mkNfs(w.Disk)
			w.Srv.Unstable = w.Unstable
			w.Model.AllowImplFail = a.ImplFail
			d = w.Disk
			w.Mark = true
			models = append(models, w.Model.Clone())
			classes = append(classes, "")
			vrt.SetBranching(a.Sched > 0)
			for _, o := range a.Ops {
				if !w.Enabled(o) {
					bad = true
					return
				}
				cl := w.OpClass(o)
				r, _, mis := w.Do(o)
				out.Transitions++
				if mis != nil {
					// sequential semantics are C02's business; a history that disagrees with the model cannot be used
					viol(a.Prop, "history-disagrees-with-model|"+mis.Rule+"|"+cl, mis.Msg+"\nreply: "+r.Brief())
					bad = true
					return
				}
				if a.CheckVerf && r.OK() && (o.K == "WRITE" || o.K == "COMMIT") {
					if origVerf == nil {
						origVerf = r.Verf
					} else if string(origVerf) != string(r.Verf) {
						viol(a.Prop, "verifier-not-constant|"+cl, fmt.Sprintf("verifier %x, earlier reply of the same server instance had %x", r.Verf, origVerf))
					}
				}
				if a.ReadBack && r.OK() && o.K == "WRITE" {
					w.Mark = false
					rb := fsx.Op{K: "READ", H: o.H, Off: o.Off, Cnt: o.Cnt}
					if rr, _, m := w.Do(rb); m != nil {
						viol(a.Prop, "unstable-data-not-readable|"+m.Rule+"|"+cl, m.Msg+"\nreply: "+rr.Brief())
					}
					w.NOps--
					w.Mark = true
				}
				models = append(models, w.Model.Clone())
				classes = append(classes, cl)
			}
			vrt.SetBranching(false)
			vrt.Quiesce() // background installer and shrinkers finish: their writes belong to the trace
		})
	}
	// schedules of the history run: the default one, plus (Sched > 0) every schedule within the deviation bound
	seenTrace := map[[32]byte]bool{}
	seenImage := map[[32]byte]bool{}
	stack := [][]int{nil}
	for len(stack) > 0 {
		prefix := stack[len(stack)-1]
		stack = stack[:len(stack)-1]
		res = runHistory(prefix)
		out.Schedules++
		if res.Diverged {
			return nil, fmt.Errorf("nondeterminism in the history run: %s", res.Msg)
		}
		if v := VerdictViolation(&res, a.Prop, "history"); v != nil {
			viol(a.Prop, v.Sig, v.Detail)
			return out, nil
		}
		if bad {
			return out, nil
		}
		if a.Sched > 0 {
			kids := explore.Children(prefix, res.Points, a.Sched)
			for i := len(kids) - 1; i >= 0; i-- {
				stack = append(stack, kids[i])
			}
		}
		th := sha256.New()
		for _, e := range d.Log {
			fmt.Fprintf(th, "%d|%d|%s|%d|%d;", e.Kind, e.Addr, e.Mark, e.Op, e.Arg)
			th.Write(e.Blk)
		}
		var tk [32]byte
		copy(tk[:], th.Sum(nil))
		if seenTrace[tk] {
			continue
		}
		seenTrace[tk] = true
		out.Traces++
		out.Events += len(d.Log)
		mdumps := make([]map[string]fsx.Node, len(models))
		for i, m := range models {
			mdumps[i] = m.Dump(probe)
		}
		// 3. crash images
		cr := crash.Enumerate(img0, d.Log, a.Cap)
		out.Raw += cr.Stats.RawChoices
		out.CappedEpochs += cr.Stats.CappedEpochs
		ack, inv := ackBounds(d.Log)
		minCut := 0
		if a.Fresh {
			// formatting itself being cut by a crash is outside the property: only cuts after the first request was issued
			for i, e := range d.Log {
				if e.Kind == vdisk.EvMark && e.Mark == "inv" {
					minCut = i + 1
					break
				}
			}
		}
		for ii, im := range cr.Images {
			if minCut > 0 {
				var rs []crash.Range
				for _, rg := range im.Ranges {
					if rg.PMax < minCut {
						continue
					}
					if rg.PMin < minCut {
						rg.PMin = minCut
					}
					rs = append(rs, rg)
				}
				if len(rs) == 0 {
					continue
				}
				im.Ranges = rs
			}
			if len(seenTrace) > 1 && seenImage[im.Key] {
				continue // recovered and judged under an earlier schedule of the same history (sequential client: same bounds per operation)
			}
			seenImage[im.Key] = true
			if a.MaxImages > 0 && ii >= a.MaxImages {
				out.Skipped += int64(len(cr.Images) - ii)
				break
			}
			out.Images++
			if im.Lost > 0 || im.LogNonEmpty {
				out.Nontrivial++
			}
			out.ImageKeys = append(out.ImageKeys, fmt.Sprintf("%x", im.Key[:8]))
			lastInv := inv[im.Ranges[len(im.Ranges)-1].PMax]
			cls := classes[lastInv]
			// 3a. structure of the logical disk of the image (C04)
			lget, _, lerr := crash.Logical(im.Img.Get)
			if lerr != nil {
				viol("C04", "crash-image|log-header|"+cls, fmt.Sprintf("image %s: %v", im.Desc, lerr))
				continue
			}
			fr := fsck.Check(lget, a.DiskSize)
			for _, e := range fr.Errors {
				viol("C04", "crash-image|"+fsck.Rule(e)+"|"+cls, fmt.Sprintf("image %s (cut after event %d of %d)\n%s", im.Desc, im.Ranges[0].PMin, len(d.Log), e))
			}
			if a.FsckOnly {
				continue
			}
			// 3b. recovery with the real code, two schedules
			for pol := 0; pol < 2; pol++ {
				var dump map[string]fsx.Node
				var derr error
				var post []string
				var d2 *vdisk.Disk
				rres := vrt.Run(vrt.Config{KeepClock: true}, func() {
					d2 = vdisk.New(im.Img)
					srv := mkNfs(d2)
					if pol == 1 {
						vrt.Quiesce()
					}
					dump, derr = fsx.Dump(srv, probe)
					if derr != nil {
						return
					}
					// which prefix?
					// the latest prefix state that matches among the operations invoked before the (latest) cut
					// at which this image is possible - later operations never happened on this disk
					k := -1
					top := len(mdumps) - 1
					if lastInv < top {
						top = lastInv
					}
					for i := top; i >= 0; i-- {
						if reffs.DiffDumps(dump, mdumps[i], true) == "" {
							k = i
							break
						}
					}
					if k < 0 {
						return
					}
					// the recovered server keeps serving correctly: allocators, caches, a few more operations
					w := &World{Disk: d2, Srv: srv, Vars: fsx.NewVars(), Model: models[k].Clone(), Unstable: true, Probe: probe}
					vrt.Quiesce()
					d2.Mark("post", 0, 0) // everything before this marker is recovery's own disk activity
					fr2 := w.Fsck()
					for _, e := range w.Audit(fr2) {
						post = append(post, "audit|"+e)
					}
					for _, o := range []fsx.Op{{K: "CREATE", H: "root", N: "zz-new"}, {K: "WRITE", H: "root/zz-new", Off: 0, Cnt: 5000, Pat: 0x5a, Stable: 2},
						{K: "MKDIR", H: "root", N: "zz-dir"}, {K: "READ", H: "root/zz-new", Off: 0, Cnt: 8192}, {K: "REMOVE", H: "root", N: "zz-new"}, {K: "RMDIR", H: "root", N: "zz-dir"}} {
						rr, _, mis := w.Do(o)
						if mis != nil {
							post = append(post, "suffix|"+o.K+"|"+mis.Rule+": "+mis.Msg)
							break
						}
						if a.CheckVerf && o.K == "WRITE" && origVerf != nil && string(rr.Verf) == string(origVerf) {
							post = append(post, fmt.Sprintf("verifier-unchanged: the recovered server instance answers WRITE with the verifier %x of the instance that crashed", rr.Verf))
						}
					}
					if len(post) == 0 {
						way := pol
						if ii%2 == 1 {
							way = 2 // every other image: the small write into the first block behind the end
						}
						post = append(post, surviveWrites(w, way)...)
					}
					if len(post) == 0 {
						if dd := w.CompareDump(true); dd != "" {
							post = append(post, "suffix|dump: "+dd)
						}
						vrt.Quiesce()
						fr3 := w.Fsck()
						for _, e := range fr3.Errors {
							post = append(post, "suffix|fsck|"+e)
						}
						if a.Reclaim {
							if pol == 0 {
								post = append(post, reclaimAfterRecovery(w, fr2)...)
							} else {
								// the other way of touching half-freed objects: remove everything first
								if m := w.DeleteAll(); m != nil {
									post = append(post, "reclaim|deleteall|"+m.Rule+": "+m.Msg)
								} else {
									vrt.Quiesce()
									fr4 := w.Fsck()
									for _, e := range fr4.Reclaim() {
										post = append(post, "reclaim|after-delete-all|"+e)
									}
									fb, fi := w.FreeCounts()
									half := 0
									for _, o := range fr4.Owned {
										if !fr4.Reachable[o] {
											half++
										}
									}
									if half == 0 && (fb != uint64(a.DiskSize)-fr4.Layout.DataStart-uint64(len(fr4.Owned)) || fi != fr4.Layout.NInode-2-uint64(len(fr4.InUse))+1) {
										post = append(post, fmt.Sprintf("reclaim|after-delete-all|free-counts: %d blocks / %d inodes free after deleting everything", fb, fi))
									}
								}
							}
						}
					}
				})
				out.Recoveries++
				if v := VerdictViolation(&rres, a.Prop, "recovery|"+cls); v != nil {
					viol(a.Prop, v.Sig, fmt.Sprintf("image %s, recovery schedule %d\n%s", im.Desc, pol, v.Detail))
					continue
				}
				if derr != nil {
					viol(a.Prop, "crash|dump-failed|"+cls, fmt.Sprintf("image %s, recovery schedule %d: %v", im.Desc, pol, derr))
					continue
				}
				var K []int
				for i := range mdumps {
					if reffs.DiffDumps(dump, mdumps[i], true) == "" {
						K = append(K, i)
					}
				}
				if ok, p, lo, hi := prefixOK(K, im.Ranges, ack, inv); !ok {
					why := ""
					if len(K) == 0 {
						why = "recovered state equals no prefix state; against the state after the last invoked operation: " + reffs.DiffDumps(dump, mdumps[hi], true)
						if hi > 0 {
							why += "\nagainst the state before it: " + reffs.DiffDumps(dump, mdumps[hi-1], true)
						}
					} else {
						why = fmt.Sprintf("recovered state equals prefix state(s) %v, but at cut %d operations 1..%d were acknowledged as stable and 1..%d invoked", K, p, lo, hi)
					}
					kind := "not-a-prefix-state"
					if len(K) > 0 && K[len(K)-1] < lo {
						kind = "acknowledged-operation-lost"
					}
					viol(a.Prop, "crash|"+kind+"|"+classes[hi], fmt.Sprintf("image %s (recovery schedule %d)\n%s", im.Desc, pol, why))
				}
				// nested crash: the recovery itself is cut (installer writes, Advance) and recovered again
				if a.Nested && pol == 1 && len(K) > 0 && im.LogNonEmpty {
					end := len(d2.Log)
					for i, e := range d2.Log {
						if e.Kind == vdisk.EvMark && e.Mark == "post" {
							end = i
							break
						}
					}
					ncr := crash.Enumerate(im.Img, d2.Log[:end], 16)
					for _, nim := range ncr.Images {
						var ndump map[string]fsx.Node
						var nerr error
						nres := vrt.Run(vrt.Config{KeepClock: true}, func() {
							srv := mkNfs(vdisk.New(nim.Img))
							ndump, nerr = fsx.Dump(srv, probe)
						})
						out.Recoveries++
						out.Nested++
						if v := VerdictViolation(&nres, a.Prop, "nested-recovery|"+cls); v != nil {
							viol(a.Prop, v.Sig, fmt.Sprintf("image %s, then a second crash during recovery (%s)\n%s", im.Desc, nim.Desc, v.Detail))
							continue
						}
						ok := nerr == nil
						if ok {
							ok = false
							for _, k := range K {
								if reffs.DiffDumps(ndump, mdumps[k], true) == "" {
									ok = true
								}
							}
						}
						if !ok {
							viol(a.Prop, "crash|nested|state-changed|"+cls, fmt.Sprintf("image %s recovers to prefix state(s) %v; after a second crash during that recovery (%s) the tree is different (dump error: %v)", im.Desc, K, nim.Desc, nerr))
						}
					}
				}
				for _, e := range post {
					prop := a.Prop
					if len(e) > 7 && e[:7] == "reclaim" {
						prop = "C05"
					}
					viol(prop, "crash|after-recovery|"+ruleOf(e)+"|"+cls, fmt.Sprintf("image %s (recovery schedule %d)\n%s", im.Desc, pol, e))
				}
			}
		}
	}
	return out, nil
}

func ruleOf(e string) string {
	for i := 0; i < len(e); i++ {
		if e[i] == ':' {
			return e[:i]
		}
	}
	return e
}

// surviveWrites continues on the files that survived the crash (at most four, by handle order): an object whose
// truncation or removal the crash interrupted may still hold blocks beyond its end.  Way 0 writes across the end
// of the file into the middle of the next block, grows it and reads the grown part; way 1 writes far beyond the end (beyond any earlier length) and
// reads the gap; way 2 writes a few bytes into the block at the end of the file and reads that block.  The reference model says what must be read: zeros where nothing was written.  On tiny disks the
// writes may be refused or short for lack of space.
func surviveWrites(w *World, way int) []string {
	var fhs []string
	for fh, id := range w.Model.ByFH {
		if o := w.Model.Objs[id]; o != nil && o.Kind == reffs.REG {
			fhs = append(fhs, fh)
		}
	}
	sort.Strings(fhs)
	if len(fhs) > 4 {
		fhs = fhs[:4]
	}
	saved := w.Model.AllowImplFail
	w.Model.AllowImplFail = true
	defer func() { w.Model.AllowImplFail = saved }()
	for _, fh := range fhs {
		h := "raw:" + fh
		sz := w.Model.Objs[w.Model.ByFH[fh]].Size
		from := uint64(0)
		if sz > 10 {
			from = sz - 10
		}
		var ops []fsx.Op
		if way == 0 {
			ops = []fsx.Op{{K: "WRITE", H: h, Off: from, Cnt: 4096 + 500, Pat: 0x5b, Stable: 2}, {K: "SETATTR", H: h, Size: sz + 3*4096 + 100},
				{K: "READ", H: h, Off: from, Cnt: 4 * 4096}, {K: "SETATTR", H: h, Size: sz}}
		} else if way == 2 {
			// a few bytes inside the block that begins at or contains the end of the file, away from both of its ends:
			// whatever the file held there before the crash must not come back with them
			at := (sz+4095)/4096*4096 + 100
			if sz%4096 != 0 && sz%4096 < 3000 {
				at = sz + 50
			}
			blk := at / 4096 * 4096
			ops = []fsx.Op{{K: "WRITE", H: h, Off: at, Cnt: 10, Pat: 0x5d, Stable: 2}, {K: "READ", H: h, Off: blk, Cnt: 4096},
				{K: "SETATTR", H: h, Size: blk + 4096}, {K: "READ", H: h, Off: blk, Cnt: 8192}, {K: "SETATTR", H: h, Size: sz}}
		} else {
			ops = []fsx.Op{{K: "WRITE", H: h, Off: sz + 1300*4096, Cnt: 1, Pat: 0x5c, Stable: 2}, {K: "READ", H: h, Off: from, Cnt: 3 * 4096},
				{K: "READ", H: h, Off: sz + 1299*4096, Cnt: 8192}, {K: "SETATTR", H: h, Size: sz}}
		}
		for _, o := range ops {
			if _, _, mis := w.Do(o); mis != nil {
				return []string{"suffix|survivor|" + o.K + "|" + mis.Rule + ": " + fmt.Sprintf("%s on a file that survived the crash (size %d): %s", o, sz, mis.Msg)}
			}
		}
	}
	return nil
}

// reclaimAfterRecovery is the procedure of C05 after a crash in the middle of
// freeing: touch every surviving object, create files until every half-freed
// inode number has been handed out again, delete them, let the shrinkers
// finish, and then demand that in-use == reachable.
func reclaimAfterRecovery(w *World, fr *fsck.Result) []string {
	var errs []string
	half := map[uint64]bool{}
	for b, o := range fr.Owned {
		_ = b
		if !fr.Reachable[o] {
			half[o] = true
		}
	}
	// touch survivors
	var vars []string
	d, _ := fsx.Dump(w.Srv, w.Probe)
	var paths []string
	for p := range d {
		paths = append(paths, p)
	}
	sort.Strings(paths)
	_ = vars
	for _, p := range paths {
		n := d[p]
		if n.Kind == 1 {
			h := fmt.Sprintf("raw:%s", n.FH)
			w.Do(fsx.Op{K: "SETATTR", H: h, Size: n.Size})
		}
	}
	// reuse inode numbers
	var made []string
	for i := 0; i < 64 && len(half) > 0; i++ {
		nm := fmt.Sprintf("zz-reuse-%d", i)
		r, _, _ := w.Do(fsx.Op{K: "CREATE", H: "root", N: nm})
		if !r.OK() {
			break
		}
		made = append(made, nm)
		if r.Attr != nil {
			delete(half, r.Attr.Fileid)
		}
	}
	for _, nm := range made {
		w.Do(fsx.Op{K: "REMOVE", H: "root", N: nm})
	}
	vrt.Quiesce()
	fr2 := w.Fsck()
	for _, e := range fr2.Reclaim() {
		errs = append(errs, "reclaim|"+e)
	}
	for _, e := range w.Audit(fr2) {
		errs = append(errs, "reclaim|audit|"+e)
	}
	return errs
}

func init() {
	par.Register("nfs.crash", crashJob)
}

// runCrashJobs dispatches crash jobs and folds their results into the report.
func runCrashJobs(r *report.Report, jobs []crashArg, props map[string]bool) {
	var args []interface{}
	for _, j := range jobs {
		args = append(args, j)
	}
	skipped := 0
	defer func() {
		if skipped > 0 {
			r.Exhaustive = false
			r.Add("histories_not_run_time_budget", int64(skipped))
			r.Note("%d of %d crash histories were not run (time budget); histories are ordered shortest first", skipped, len(jobs))
		}
	}()
	par.Map("nfs.crash", args, par.Options{Deadline: Deadline}, func(i int, res *par.Result) {
		if res.Skipped {
			skipped++
			return
		}
		if res.Crashed || res.Err != "" {
			r.Violate(report.Violation{Sig: "worker-died|crash|" + fsx.Hist(jobs[i].Ops), Detail: res.Err + tail(res.Stderr, 3000), Replay: map[string]interface{}{"job": "nfs.crash", "arg": jobs[i]}})
			return
		}
		var x crashRes
		json.Unmarshal(res.Out, &x)
		r.Add("transitions", x.Transitions)
		r.Add("traces_validated_against_impl", 1+x.Recoveries)
		r.Add("crash_images", x.Images)
		r.Add("crash_choice_vectors", x.Raw)
		r.Add("recoveries", x.Recoveries)
		r.Add("nested_crash_images", x.Nested)
		r.Add("history_schedules", x.Schedules)
		r.Add("distinct_disk_traces", x.Traces)
		r.Add("histories", 1)
		r.Add("disk_events", int64(x.Events))
		if x.CappedEpochs > 0 || x.Skipped > 0 {
			r.Add("capped_epochs", int64(x.CappedEpochs))
			r.Add("skipped_images", x.Skipped)
			r.Exhaustive = false
		}
		for _, k := range x.ImageKeys {
			r.Distinct(k)
		}
		for _, v := range x.Viols {
			if props == nil || props[v.Property] {
				r.Violate(*v)
			}
		}
		if i%53 == 0 {
			r.Sample(map[string]interface{}{"history": fsx.Hist(jobs[i].Ops), "disk_events": x.Events, "crash_images": x.Images, "recoveries": x.Recoveries})
		}
	})
}
