package checks

import (
	"encoding/json"
	"fmt"

	"github.com/mit-pdos/go-journal/vrt"
	"verif/fsx"
	"verif/par"
	"verif/report"
)

// ---- C19: advertised limits are honoured exactly ----

type c19Arg struct {
	Name       string   `json:"name"`
	Setup      []fsx.Op `json:"setup"`
	Ops        []fsx.Op `json:"ops"`
	NoUnstable bool     `json:"no_unstable,omitempty"`
}

type c19Res struct {
	Transitions int64               `json:"transitions"`
	Limits      map[string]uint64   `json:"limits"`
	Viols       []*report.Violation `json:"viols"`
	OK, Refused int                 `json:"-"`
	Outcomes    []string            `json:"outcomes"`
}

// scenarios are generated from the limits the server announces
func c19Scenarios(lim map[string]uint64) []c19Arg {
	nm, wtmax, wtpref, maxfs, rtmax := lim["name_max"], lim["wtmax"], lim["wtpref"], lim["maxfilesize"], lim["rtmax"]
	var sc []c19Arg
	// names
	for _, l := range []uint64{1, nm - 1, nm, nm + 1, 255, 256, 1000} {
		n := nameOfLen(int(l), 'n')
		for _, k := range []string{"CREATE", "MKDIR", "SYMLINK"} {
			sc = append(sc, c19Arg{Name: fmt.Sprintf("name-%s-%d", k, l), Ops: []fsx.Op{{K: k, H: "root", N: n, Target: "t"}, {K: "LOOKUP", H: "root", N: n, As: "_"}}})
		}
		sc = append(sc, c19Arg{Name: fmt.Sprintf("name-RENAME-%d", l), Setup: []fsx.Op{{K: "CREATE", H: "root", N: "src"}},
			Ops: []fsx.Op{{K: "RENAME", H: "root", N: "src", H2: "root", N2: n}, {K: "LOOKUP", H: "root", N: n, As: "_"}, {K: "LOOKUP", H: "root", N: "src", As: "_"}}})
	}
	// the limit counts bytes: names made of two-byte characters
	for _, l := range []uint64{nm - 2, nm, nm + 1, nm + 2, 2 * nm} {
		n := utf8Name(int(l))
		for _, k := range []string{"CREATE", "MKDIR", "SYMLINK"} {
			sc = append(sc, c19Arg{Name: fmt.Sprintf("utf8-name-%s-%d", k, l), Ops: []fsx.Op{{K: k, H: "root", N: n, Target: "t"}, {K: "LOOKUP", H: "root", N: n, As: "_"}, {K: "RESTART"}, {K: "LOOKUP", H: "root", N: n, As: "_"}, {K: "READDIR", H: "root", Cnt: 1 << 20}}})
		}
		sc = append(sc, c19Arg{Name: fmt.Sprintf("utf8-name-RENAME-%d", l), Setup: []fsx.Op{{K: "CREATE", H: "root", N: "src"}},
			Ops: []fsx.Op{{K: "RENAME", H: "root", N: "src", H2: "root", N2: n}, {K: "LOOKUP", H: "root", N: n, As: "_"}, {K: "RESTART"}, {K: "READDIR", H: "root", Cnt: 1 << 20}}})
	}
	// many names at the limit in one directory (several directory blocks; the name cache is rebuilt after the restart)
	for _, l := range []uint64{nm - 1, nm} {
		last := fmt.Sprintf("m%03d", 39)
		for uint64(len(last)) < l {
			last += "_"
		}
		sc = append(sc, c19Arg{Name: fmt.Sprintf("names-many-%d", l), Setup: []fsx.Op{{K: "MKDIR", H: "root", N: "d"}},
			Ops: []fsx.Op{{K: "CREATEMANY", H: "root/d", N: "m", Cnt: 40, Len: int64(l)}, {K: "LOOKUP", H: "root/d", N: last, As: "_"}, {K: "RESTART"}, {K: "LOOKUP", H: "root/d", N: last, As: "_"},
				{K: "CREATE", H: "root/d", N: last, As: "_"}, {K: "READDIRPLUS", H: "root/d", DirCnt: 1 << 20, MaxCnt: 1 << 20}}})
	}
	// write sizes
	idx := []fsx.Op{{K: "CREATE", H: "root", N: "f"}, {K: "WRITE", H: "root/f", Off: (8 + 512 + 600) * 4096, Cnt: 1, Pat: 0x19, Stable: 2}}
	for _, c := range []uint64{wtpref - 1, wtpref, wtpref + 1, wtmax - 4096, wtmax - 1, wtmax, wtmax + 1} {
		for _, off := range []uint64{0, 1, 4095} {
			for si, setup := range [][]fsx.Op{{{K: "CREATE", H: "root", N: "f"}}, idx} {
				sc = append(sc, c19Arg{Name: fmt.Sprintf("write-%d-at-%d-%d", c, off, si), Setup: setup,
					Ops: []fsx.Op{{K: "WRITE", H: "root/f", Off: off, Cnt: c, Pat: 0x2a, Stable: 2}, {K: "READ", H: "root/f", Off: off, Cnt: 65536}, {K: "READ", H: "root/f", Off: off + c - 1, Cnt: 4096}}})
			}
		}
	}
	// file sizes and offsets
	f := []fsx.Op{{K: "CREATE", H: "root", N: "f"}}
	sc = append(sc,
		c19Arg{Name: "byte-at-max-1", Setup: f, Ops: []fsx.Op{{K: "WRITE", H: "root/f", Off: maxfs - 1, Cnt: 1, Pat: 0x31, Stable: 2}, {K: "READ", H: "root/f", Off: maxfs - 4096, Cnt: 8192}, {K: "GETATTR", H: "root/f"}}},
		c19Arg{Name: "byte-at-max", Setup: f, Ops: []fsx.Op{{K: "WRITE", H: "root/f", Off: maxfs, Cnt: 1, Pat: 0x32, Stable: 2}, {K: "GETATTR", H: "root/f"}}},
		c19Arg{Name: "block-ending-at-max", Setup: f, Ops: []fsx.Op{{K: "WRITE", H: "root/f", Off: maxfs - 4096, Cnt: 4096, Pat: 0x33, Stable: 2}, {K: "READ", H: "root/f", Off: maxfs - 4096, Cnt: 4097}}},
		c19Arg{Name: "block-crossing-max", Setup: f, Ops: []fsx.Op{{K: "WRITE", H: "root/f", Off: maxfs - 4095, Cnt: 4096, Pat: 0x34, Stable: 2}, {K: "GETATTR", H: "root/f"}}},
		c19Arg{Name: "write-wrapping", Setup: f, Ops: []fsx.Op{{K: "WRITE", H: "root/f", Off: 1<<64 - 10, Cnt: 20, Pat: 0x35, Stable: 2}, {K: "GETATTR", H: "root/f"}}},
	)
	for _, sz := range []uint64{maxfs - 1, maxfs, maxfs + 1, 1 << 63, 1<<64 - 1} {
		sc = append(sc, c19Arg{Name: fmt.Sprintf("setattr-size-%d", sz), Setup: f, Ops: []fsx.Op{{K: "SETATTR", H: "root/f", Size: sz}, {K: "GETATTR", H: "root/f"}, {K: "READ", H: "root/f", Off: sz - 1, Cnt: 2},
			{K: "SETATTR", H: "root/f", Size: 10}, {K: "READ", H: "root/f", Off: 0, Cnt: 100}}})
	}
	for _, off := range []uint64{maxfs - 1, maxfs, 1<<64 - 1} {
		sc = append(sc, c19Arg{Name: fmt.Sprintf("read-at-%d", off), Setup: []fsx.Op{{K: "CREATE", H: "root", N: "f"}, {K: "SETATTR", H: "root/f", Size: maxfs}},
			Ops: []fsx.Op{{K: "READ", H: "root/f", Off: off, Cnt: 10}}})
	}
	fill := []fsx.Op{{K: "CREATE", H: "root", N: "f"}, {K: "WRITE", H: "root/f", Off: 0, Cnt: rtmax, Pat: 0x41, Stable: 2}, {K: "WRITE", H: "root/f", Off: rtmax, Cnt: 4096, Pat: 0x42, Stable: 2}}
	for _, c := range []uint64{rtmax, rtmax + 1} {
		sc = append(sc, c19Arg{Name: fmt.Sprintf("read-%d", c), Setup: fill, Ops: []fsx.Op{{K: "READ", H: "root/f", Off: 0, Cnt: c}}})
	}
	return sc
}

func c19Job(raw json.RawMessage) (interface{}, error) {
	var a c19Arg
	json.Unmarshal(raw, &a)
	out := &c19Res{}
	img := cachedMkfs(40000)
	viol := func(sig, detail string) {
		out.Viols = append(out.Viols, &report.Violation{Property: "C19", Sig: sig, Detail: "scenario " + a.Name + ": " + fsx.Hist(append(append([]fsx.Op{}, a.Setup...), a.Ops...)) + "\n" + detail,
			Replay: map[string]interface{}{"job": "c19", "arg": a}})
	}
	res := vrt.Run(vrt.Config{Horizon: 50_000_000}, func() {
		w := NewWorld(img)
		if a.NoUnstable {
			w.Unstable, w.Srv.Unstable = false, false
		}
		w.Probe = &fsx.Probe{Full: 4 << 20, Windows: []uint64{maxFile - 1, (8 + 512 + 600) * 4096}}
		// the model's limits are the announced ones
		fi := fsx.Exec(w.Srv, fsx.Op{K: "FSINFO"}, fsx.RootFH(), nil)
		pc := fsx.Exec(w.Srv, fsx.Op{K: "PATHCONF"}, fsx.RootFH(), nil)
		if !fi.OK() || !pc.OK() {
			viol("limits-unavailable", "FSINFO/PATHCONF failed")
			return
		}
		w.Model.Lim.NameMax, w.Model.Lim.WtMax, w.Model.Lim.MaxFileSize = pc.Info["name_max"], fi.Info["wtmax"], fi.Info["maxfilesize"]
		for _, o := range a.Setup {
			if _, _, mis := w.Do(o); mis != nil {
				viol("setup|"+mis.Rule+"|"+w.OpClass(o), mis.Msg)
				return
			}
		}
		b0, i0 := w.FreeCounts()
		for i, o := range a.Ops {
			if !w.Enabled(o) {
				continue
			}
			cl := w.OpClass(o)
			r, _, mis := w.Do(o)
			out.Transitions++
			if i == 0 {
				out.Outcomes = append(out.Outcomes, fmt.Sprintf("%s=>%d", cl, r.Status))
			}
			if mis != nil {
				viol(mis.Rule+"|"+cl, mis.Msg+"\nreply: "+r.Brief())
				return
			}
			if i == 0 && !r.OK() {
				// refused: no effect, nothing consumed
				vrt.Quiesce()
				b1, i1 := w.FreeCounts()
				if b1 != b0 || i1 != i0 {
					viol("refused-but-consumed|"+cl, fmt.Sprintf("free blocks %d -> %d, free inodes %d -> %d", b0, b1, i0, i1))
					return
				}
			}
		}
		if d := w.CompareDump(true); d != "" {
			viol("dump|"+w.OpClass(a.Ops[0]), d)
			return
		}
		w.Restart()
		if d := w.CompareDump(true); d != "" {
			viol("dump-after-restart|"+w.OpClass(a.Ops[0]), d)
			return
		}
		vrt.Quiesce()
		fr := w.Fsck()
		for _, e := range fr.Errors {
			viol("fsck|"+ruleOf(e), e)
		}
		// afterwards all space comes back
		if m := w.DeleteAll(); m != nil {
			viol("cleanup|"+m.Rule, m.Msg)
			return
		}
		vrt.Quiesce()
		fb, fi2 := w.FreeCounts()
		if fb != w.FreshB || fi2 != w.FreshI {
			viol("space-not-returned|"+w.OpClass(a.Ops[0]), fmt.Sprintf("after removing everything %d blocks / %d inodes are free, fresh values %d / %d", fb, fi2, w.FreshB, w.FreshI))
		}
	})
	if v := VerdictViolation(&res, "C19", a.Ops[0].String()); v != nil {
		viol(v.Sig, v.Detail)
	}
	return out, nil
}

func init() {
	Checks["C19"] = C19
	par.Register("c19", c19Job)
	par.Register("c19.limits", func(raw json.RawMessage) (interface{}, error) {
		img := cachedMkfs(40000)
		lim := map[string]uint64{}
		vrt.Run(vrt.Config{}, func() {
			w := NewWorld(img)
			fi := fsx.Exec(w.Srv, fsx.Op{K: "FSINFO"}, fsx.RootFH(), nil)
			pc := fsx.Exec(w.Srv, fsx.Op{K: "PATHCONF"}, fsx.RootFH(), nil)
			for k, v := range fi.Info {
				lim[k] = v
			}
			for k, v := range pc.Info {
				lim[k] = v
			}
		})
		return lim, nil
	})
}

func C19(r *report.Report, tier string) {
	lv, _ := par.RunLocal("c19.limits", nil)
	lim := lv.(map[string]uint64)
	r.Extra["announced_limits"] = lim
	sc := c19Scenarios(lim)
	if tier == "thorough" {
		for _, s := range c19Scenarios(lim) {
			s.NoUnstable = true
			s.Name += "-nounstable"
			sc = append(sc, s)
		}
	}
	r.Rule = "the limits are read from the server's FSINFO and PATHCONF replies; names of length {1, name_max-1, name_max, name_max+1, 255, 256, 1000} in CREATE, MKDIR, SYMLINK and as RENAME target; WRITE counts {wtpref-1, wtpref, wtpref+1, wtmax-4096, wtmax-1, wtmax, wtmax+1} at offsets {0,1,4095} on an empty file and on one that already has its index blocks; bytes/blocks at maxfilesize-1, maxfilesize, crossing it, offset+count wrapping 2^64; SETATTR sizes {max-1, max, max+1, 2^63, 2^64-1}; READs at and beyond the maximum and of rtmax, rtmax+1 bytes; each scenario: at or below the limit the request must succeed completely (no short count) and read back, also after a restart; beyond it, it must fail without effect and consume nothing; fsck; finally everything is removed and all space must return. Disk of 40000 blocks (space is never the limit)."
	var jobs []interface{}
	for _, s := range sc {
		jobs = append(jobs, s)
	}
	par.Map("c19", jobs, par.Options{}, func(i int, res *par.Result) {
		if res.Crashed || res.Err != "" {
			r.Violate(report.Violation{Sig: "worker-died|" + sc[i].Name, Detail: res.Err + tail(res.Stderr, 3000), Replay: map[string]interface{}{"job": "c19", "arg": sc[i]}})
			return
		}
		var x c19Res
		json.Unmarshal(res.Out, &x)
		r.Add("transitions", x.Transitions)
		r.Add("traces_validated_against_impl", 1)
		r.Add("states", 1)
		for _, o := range x.Outcomes {
			r.Distinct(o)
		}
		for _, v := range x.Viols {
			r.Violate(*v)
		}
		if i%17 == 0 {
			r.Sample(map[string]interface{}{"scenario": sc[i].Name, "first_request_outcome": x.Outcomes})
		}
	})
}
