package checks

import (
	"encoding/json"
	"fmt"
	"sort"
	"strings"

	"github.com/mit-pdos/go-journal/vrt"
	"github.com/mit-pdos/go-nfsd/nfstypes"
	"github.com/mit-pdos/go-nfsd/simple"
	"verif/crash"
	"verif/lin"
	"verif/par"
	"verif/report"
	"verif/vdisk"
)

// ---- C17: SimpleNFS implements its specification, atomically and durably ----

type sOp struct {
	K    string `json:"k"` // GETATTR READ WRITE SETATTR RESTART
	Ino  uint64 `json:"ino"`
	Off  uint64 `json:"off,omitempty"`
	Cnt  uint64 `json:"cnt,omitempty"`
	DLen int64  `json:"dlen,omitempty"` // data length: 0 = Cnt, -1 = empty, else explicit
	Pat  byte   `json:"pat,omitempty"`
	Size uint64 `json:"size,omitempty"`
	St   int    `json:"st,omitempty"` // WRITE stability requested: 0 FILE_SYNC (default), 1 DATA_SYNC, 2 UNSTABLE
}

func (o sOp) String() string {
	switch o.K {
	case "WRITE":
		return fmt.Sprintf("WRITE(%d,off=%d,cnt=%d,dlen=%d,pat=%#x,st=%d)", o.Ino, o.Off, o.Cnt, o.dlen(), o.Pat, o.St)
	case "READ":
		return fmt.Sprintf("READ(%d,off=%d,cnt=%d)", o.Ino, o.Off, o.Cnt)
	case "SETATTR":
		return fmt.Sprintf("SETATTR(%d,size=%d)", o.Ino, o.Size)
	case "GETATTR":
		return fmt.Sprintf("GETATTR(%d)", o.Ino)
	}
	return o.K
}

func (o sOp) dlen() uint64 {
	switch {
	case o.DLen == 0:
		return o.Cnt
	case o.DLen < 0:
		return 0
	}
	return uint64(o.DLen)
}

func (o sOp) data() []byte {
	n := o.dlen()
	if n > 1<<20 {
		n = 1 << 20
	}
	b := make([]byte, n)
	for i := range b {
		b[i] = o.Pat ^ byte(i%7)
	}
	return b
}

type sOut struct {
	OK    bool   `json:"ok"`
	Size  uint64 `json:"size"`
	Type  uint32 `json:"type"`
	Data  string `json:"data"`
	Eof   bool   `json:"eof"`
	Count uint32 `json:"count"`
}

func sHist(ops []sOp) string {
	var s []string
	for _, o := range ops {
		s = append(s, o.String())
	}
	return strings.Join(s, "; ")
}

// the specification: 30 files (inums 2..31) of at most 4096 bytes
type sSpec map[uint64][]byte

func (s sSpec) Clone() lin.Model {
	c := sSpec{}
	for k, v := range s {
		c[k] = v
	}
	return c
}

func sValid(i uint64) bool { return i >= 2 && i < 32 }

func (s sSpec) apply(o sOp) sOut {
	f := s[o.Ino]
	switch o.K {
	case "GETATTR":
		if o.Ino == 1 {
			return sOut{OK: true, Type: 2}
		}
		if !sValid(o.Ino) {
			return sOut{}
		}
		return sOut{OK: true, Type: 1, Size: uint64(len(f))}
	case "READ":
		if !sValid(o.Ino) {
			return sOut{}
		}
		sz := uint64(len(f))
		if o.Off >= sz {
			return sOut{OK: true, Eof: true}
		}
		end := o.Off + o.Cnt
		if end > sz || end < o.Off {
			end = sz
		}
		return sOut{OK: true, Data: string(f[o.Off:end]), Count: uint32(end - o.Off), Eof: o.Off+o.Cnt >= sz || o.Off+o.Cnt < o.Off}
	case "WRITE":
		if !sValid(o.Ino) {
			return sOut{}
		}
		if o.dlen() != o.Cnt || o.Off+o.Cnt < o.Off || o.Off+o.Cnt > 4096 || o.Off > uint64(len(f)) {
			return sOut{}
		}
		n := append([]byte{}, f...)
		for uint64(len(n)) < o.Off+o.Cnt {
			n = append(n, 0)
		}
		copy(n[o.Off:], o.data())
		s[o.Ino] = n
		return sOut{OK: true, Count: uint32(o.Cnt)}
	case "SETATTR":
		if !sValid(o.Ino) || o.Size > 4096 {
			return sOut{}
		}
		n := append([]byte{}, f...)
		if uint64(len(n)) > o.Size {
			n = n[:o.Size]
		}
		for uint64(len(n)) < o.Size {
			n = append(n, 0)
		}
		s[o.Ino] = n
		return sOut{OK: true}
	}
	return sOut{}
}

func (s sSpec) Step(in, out interface{}) bool { return s.apply(in.(sOp)) == out.(sOut) }

func (s sSpec) key() string {
	var ks []uint64
	for k := range s {
		ks = append(ks, k)
	}
	sort.Slice(ks, func(i, j int) bool { return ks[i] < ks[j] })
	var sb strings.Builder
	for _, k := range ks {
		fmt.Fprintf(&sb, "%d:%x;", k, s[k])
	}
	return sb.String()
}

func sFh(ino uint64) nfstypes.Nfs_fh3 { return simple.Fh{Ino: ino}.MakeFh3() }

func sDo(srv *simple.Nfs, o sOp) sOut {
	switch o.K {
	case "GETATTR":
		r := srv.NFSPROC3_GETATTR(nfstypes.GETATTR3args{Object: sFh(o.Ino)})
		if r.Status != 0 {
			return sOut{}
		}
		sz := uint64(r.Resok.Obj_attributes.Size)
		if r.Resok.Obj_attributes.Ftype == nfstypes.NF3DIR {
			sz = 0
		}
		return sOut{OK: true, Type: uint32(r.Resok.Obj_attributes.Ftype), Size: sz}
	case "READ":
		r := srv.NFSPROC3_READ(nfstypes.READ3args{File: sFh(o.Ino), Offset: nfstypes.Offset3(o.Off), Count: nfstypes.Count3(o.Cnt)})
		if r.Status != 0 {
			return sOut{}
		}
		return sOut{OK: true, Data: string(r.Resok.Data), Count: uint32(r.Resok.Count), Eof: r.Resok.Eof}
	case "WRITE":
		r := srv.NFSPROC3_WRITE(nfstypes.WRITE3args{File: sFh(o.Ino), Offset: nfstypes.Offset3(o.Off), Count: nfstypes.Count3(o.Cnt), Stable: []nfstypes.Stable_how{nfstypes.FILE_SYNC, nfstypes.DATA_SYNC, nfstypes.UNSTABLE}[o.St], Data: o.data()})
		if r.Status != 0 {
			return sOut{}
		}
		return sOut{OK: true, Count: uint32(r.Resok.Count)}
	case "SETATTR":
		var a nfstypes.SETATTR3args
		a.Object = sFh(o.Ino)
		a.New_attributes.Size.Set_it = true
		a.New_attributes.Size.Size = nfstypes.Size3(o.Size)
		r := srv.NFSPROC3_SETATTR(a)
		return sOut{OK: r.Status == 0}
	}
	return sOut{}
}

var sObserved = []uint64{2, 3, 4, 17, 30, 31}

// sLongPre: 525 acknowledged writes - five rounds over all thirty files, then fifteen rounds over files 5..29.  The journal
// (511 blocks; a write that does not grow the file takes one) has wrapped around since the observed files were last written: whatever was installed for
// them must have survived every later use of every journal block.
func sLongPre() []sOp {
	var pre []sOp
	for round := 0; round < 20; round++ {
		for ino := uint64(2); ino <= 31; ino++ {
			if round >= 5 && (ino < 5 || ino > 29) {
				continue
			}
			pre = append(pre, sOp{K: "WRITE", Ino: ino, Off: 0, Cnt: 4096, Pat: byte(1 + (round*37+int(ino))%250)})
		}
	}
	return pre
}

func sObserve(srv *simple.Nfs) map[uint64]string {
	obs := map[uint64]string{}
	for _, i := range sObserved {
		g := sDo(srv, sOp{K: "GETATTR", Ino: i})
		r := sDo(srv, sOp{K: "READ", Ino: i, Off: 0, Cnt: 8192})
		obs[i] = fmt.Sprintf("%v/%d/%x/%v", g.OK && r.OK, g.Size, r.Data, r.Eof)
	}
	return obs
}

func sSpecObs(s sSpec) map[uint64]string {
	obs := map[uint64]string{}
	for _, i := range sObserved {
		obs[i] = fmt.Sprintf("%v/%d/%x/%v", true, len(s[i]), s[i], true)
	}
	return obs
}

func sMkfs() *vdisk.Image {
	var img *vdisk.Image
	vrt.Run(vrt.Config{}, func() {
		d := vdisk.New(vdisk.NewImage(700))
		d.Record = false
		simple.MakeNfs(d)
		vrt.Quiesce()
		img = d.Snapshot().Flatten()
	})
	return img
}

var sImg *vdisk.Image

func sBase() *vdisk.Image {
	if sImg == nil {
		sImg = sMkfs()
	}
	return sImg
}

func sAlphabet(tier string) []sOp {
	var al []sOp
	inos := []uint64{0, 1, 2, 3, 31, 32, 1<<64 - 1}
	pat := byte(0x40)
	for _, i := range inos {
		al = append(al, sOp{K: "GETATTR", Ino: i})
	}
	// numbers whose byte address wraps around 2^64 (inode size 128 bytes, 2^57 * 128 = 2^64) or exceeds 32 bits
	for _, i := range []uint64{1<<57 + 2, 1<<63 + 3, 1<<54 + 2, 1<<32 + 2, 1<<61 + 31} {
		al = append(al, sOp{K: "GETATTR", Ino: i}, sOp{K: "WRITE", Ino: i, Off: 0, Cnt: 100, Pat: 0x3f}, sOp{K: "READ", Ino: i, Off: 0, Cnt: 4096}, sOp{K: "SETATTR", Ino: i, Size: 100})
	}
	for _, i := range []uint64{2, 31, 0, 32} {
		for _, off := range []uint64{0, 1, 100, 4095, 4096, 4097, 1<<64 - 1} {
			for _, c := range []uint64{0, 1, 100, 4096, 4097} {
				if i != 2 && !(off <= 1 && c == 100) {
					continue
				}
				for _, dl := range []int64{0, int64(c) - 1, int64(c) + 1} {
					if dl < 0 || (dl == 0 && c == 1) {
						if dl != 0 {
							dl = -1
						}
					}
					pat++
					al = append(al, sOp{K: "WRITE", Ino: i, Off: off, Cnt: c, DLen: dl, Pat: pat | 1})
				}
			}
			for _, c := range []uint64{0, 1, 4096, 1<<32 - 1} {
				if i != 2 && !(off == 0 && c == 4096) {
					continue
				}
				al = append(al, sOp{K: "READ", Ino: i, Off: off, Cnt: c})
			}
		}
		for _, sz := range []uint64{0, 1, 100, 4096, 4097, 1 << 32, 1<<64 - 1} {
			if i != 2 && sz != 100 {
				continue
			}
			al = append(al, sOp{K: "SETATTR", Ino: i, Size: sz})
		}
	}
	al = append(al, sOp{K: "RESTART"})
	return al
}

type sSeqArg struct {
	Pre   []sOp `json:"pre,omitempty"` // brings the server into a non-initial state first (checked too)
	Ops   []sOp `json:"ops"`
	Crash bool  `json:"crash"`
}

type sSeqRes struct {
	Transitions int64               `json:"transitions"`
	Keys        []string            `json:"keys"`
	Images      int64               `json:"images"`
	ImageKeys   []string            `json:"image_keys"`
	Recoveries  int64               `json:"recoveries"`
	Capped      int                 `json:"capped"`
	Viols       []*report.Violation `json:"viols"`
}

func sSeqJob(raw json.RawMessage) (interface{}, error) {
	var a sSeqArg
	json.Unmarshal(raw, &a)
	out := &sSeqRes{}
	base := sBase()
	spec := sSpec{}
	specs := []sSpec{spec.Clone().(sSpec)}
	var d *vdisk.Disk
	cur := ""
	viol := func(sig, detail string) {
		out.Viols = append(out.Viols, &report.Violation{Property: "C17", Sig: sig, Detail: "history: " + sHist(a.Ops) + "\n" + detail, Replay: map[string]interface{}{"job": "c17.seq", "arg": a}})
	}
	res := vrt.Run(vrt.Config{Horizon: 20_000_000}, func() {
		d = vdisk.New(base)
		srv := simpleRecover(d)
		for i, o := range a.Pre {
			if i%25 == 24 {
				vrt.Quiesce() // the journal's installer catches up (by default it only runs when the journal is full)
			}
			if got, want := sDo(srv, o), spec.apply(o); got != want {
				viol("seq|reply|"+o.String(), fmt.Sprintf("set-up request %s answered %+v, the specification says %+v", o, clipOut(got), clipOut(want)))
				return
			}
		}
		specs[0] = spec.Clone().(sSpec)
		if a.Crash && len(a.Pre) > 0 {
			// the crash images are those of the history proper: it starts on the disk the set-up left behind
			vrt.Quiesce()
			base = d.Snapshot()
			d = vdisk.New(base)
			srv = simpleRecover(d)
		}
		for i, o := range a.Ops {
			cur = o.String()
			if o.K == "RESTART" {
				vrt.Quiesce()
				srv = simpleRecover(d)
				specs = append(specs, spec.Clone().(sSpec))
				continue
			}
			d.Mark("inv", i+1, 0)
			got := sDo(srv, o)
			want := spec.apply(o)
			stable := 0
			if got.OK && (o.K == "WRITE" || o.K == "SETATTR") {
				stable = 1
			}
			d.Mark("ack", i+1, stable)
			out.Transitions++
			if got != want {
				viol("seq|reply|"+o.String(), fmt.Sprintf("request %d %s answered %+v, the specification says %+v", i+1, o, clipOut(got), clipOut(want)))
				return
			}
			specs = append(specs, spec.Clone().(sSpec))
			out.Keys = append(out.Keys, spec.key())
		}
		cur = "observe"
		if o, w := sObserve(srv), sSpecObs(spec); fmt.Sprint(o) != fmt.Sprint(w) {
			viol("seq|final-state|"+a.Ops[len(a.Ops)-1].String(), fmt.Sprintf("files read back as %v, specification %v", o, w))
		}
		vrt.Quiesce()
	})
	if v := VerdictViolation(&res, "C17", cur); v != nil {
		viol(v.Sig, v.Detail)
		return out, nil
	}
	if !a.Crash || len(out.Viols) > 0 {
		return out, nil
	}
	cr := crash.Enumerate(base, d.Log, 1024)
	out.Capped = cr.Stats.CappedEpochs
	ack, inv := ackBounds(d.Log)
	for _, im := range cr.Images {
		out.Images++
		out.ImageKeys = append(out.ImageKeys, fmt.Sprintf("%x", im.Key[:8]))
		for pol := 0; pol < 2; pol++ {
			var obs map[uint64]string
			ok2 := true
			rres := vrt.Run(vrt.Config{}, func() {
				srv := simpleRecover(vdisk.New(im.Img))
				if pol == 1 {
					vrt.Quiesce()
				}
				obs = sObserve(srv)
				// keeps serving
				w := sDo(srv, sOp{K: "WRITE", Ino: 5, Off: 0, Cnt: 10, Pat: 0x77})
				r := sDo(srv, sOp{K: "READ", Ino: 5, Off: 0, Cnt: 10})
				ok2 = w.OK && r.OK && len(r.Data) == 10
			})
			out.Recoveries++
			if v := VerdictViolation(&rres, "C17", "recovery"); v != nil {
				viol(v.Sig, im.Desc+"\n"+v.Detail)
				continue
			}
			if !ok2 {
				viol("crash|not-serving-after-recovery", im.Desc)
			}
			var K []int
			for k, s := range specs {
				if fmt.Sprint(obs) == fmt.Sprint(sSpecObs(s)) {
					K = append(K, k)
				}
			}
			if ok, p, lo, hi := prefixOK(K, im.Ranges, ack, inv); !ok {
				last := ""
				if hi >= 1 && hi <= len(a.Ops) {
					last = a.Ops[hi-1].String()
				}
				viol("crash|not-a-prefix-state|"+last, fmt.Sprintf("image %s (cut %d, recovery schedule %d): files %v; matches prefix states %v, must match one in [%d,%d]", im.Desc, p, pol, obs, K, lo, hi))
			}
		}
	}
	return out, nil
}

func clipOut(o sOut) sOut {
	if len(o.Data) > 32 {
		o.Data = fmt.Sprintf("%x...[%d]", o.Data[:16], len(o.Data))
	}
	return o
}

type sConcArg struct {
	Clients [][]sOp `json:"clients"`
}

func sConcHarness(raw json.RawMessage, cfg vrt.Config) (vrt.Result, Outcome) {
	var a sConcArg
	json.Unmarshal(raw, &a)
	base := sBase()
	var hist []lin.Op
	var outc Outcome
	res := vrt.Run(cfg, func() {
		d := vdisk.New(base)
		d.Record = false
		srv := simpleRecover(d)
		vrt.SetBranching(true)
		var ids []int
		for ci, ops := range a.Clients {
			ci, ops := ci, ops
			ids = append(ids, vrt.Go(fmt.Sprintf("client%d", ci), vrt.ClClient, func() {
				for _, o := range ops {
					inv := vrt.Steps()
					got := sDo(srv, o)
					record(&hist, lin.Op{Client: ci, Inv: inv, Ret: vrt.Steps(), In: o, Out: got})
				}
			}))
		}
		vrt.Join(ids...)
		vrt.SetBranching(false)
		for _, o := range []sOp{{K: "GETATTR", Ino: 2}, {K: "READ", Ino: 2, Off: 0, Cnt: 8192}, {K: "GETATTR", Ino: 3}, {K: "GETATTR", Ino: 31}, {K: "READ", Ino: 3, Off: 0, Cnt: 8192}} {
			st := vrt.Steps() + 1
			hist = append(hist, lin.Op{Client: 99, Inv: st, Ret: st, In: o, Out: sDo(srv, o)})
		}
	})
	sorted := append([]lin.Op{}, hist...)
	sort.SliceStable(sorted, func(i, j int) bool { return sorted[i].Client < sorted[j].Client })
	var ks []string
	for _, h := range sorted {
		ks = append(ks, fmt.Sprintf("c%d:%s=>%+v", h.Client, h.In.(sOp), clipOut(h.Out.(sOut))))
	}
	outc.Key = strings.Join(ks, " | ")
	if res.Pruned {
		return res, outc
	}
	if v := VerdictViolation(&res, "C17", "concurrent"); v != nil {
		outc.Viol = v
		return res, outc
	}
	if ok, _ := lin.Check(sSpec{}, hist); !ok {
		outc.Viol = &report.Violation{Property: "C17", Sig: "conc|not-linearizable|" + fmt.Sprint(len(a.Clients)), Detail: "history is not linearizable against the specification:\n" + strings.ReplaceAll(outc.Key, " | ", "\n")}
	}
	return res, outc
}

// concurrent clients and a crash: see conccrash.go.  Here reads count too: the simple server keeps a file locked
// until its update is on disk, so a reply never shows data that a crash can still take away.
type sCCArg struct {
	Name    string  `json:"name"`
	Clients [][]sOp `json:"clients"`
	Cap     int     `json:"cap"`
}

var sCCStats ccStats

func sCCHarness(raw json.RawMessage, cfg vrt.Config) (vrt.Result, Outcome) {
	var a sCCArg
	json.Unmarshal(raw, &a)
	base := sBase()
	var outc Outcome
	var ops []ccOp
	var d *vdisk.Disk
	for _, ci := range a.Clients {
		for _, o := range ci {
			ops = append(ops, ccOp{In: o})
		}
	}
	res := vrt.Run(cfg, func() {
		d = vdisk.New(base)
		srv := simpleRecover(d)
		vrt.Quiesce()
		vrt.SetBranching(true)
		var ids []int
		id := 0
		for ci, cops := range a.Clients {
			ci, cops, first := ci, cops, id
			id += len(cops)
			ids = append(ids, vrt.Go(fmt.Sprintf("client%d", ci), vrt.ClClient, func() {
				for j, o := range cops {
					d.Mark("inv", first+j, 0)
					got := sDo(srv, o)
					ops[first+j].Client, ops[first+j].Out = ci, got
					d.Mark("ack", first+j, 0)
				}
			}))
		}
		vrt.Join(ids...)
		vrt.SetBranching(false)
		vrt.Quiesce()
	})
	var ks []string
	for _, o := range ops {
		out, _ := o.Out.(sOut)
		ks = append(ks, fmt.Sprintf("c%d:%s=>%+v", o.Client, o.In.(sOp), clipOut(out)))
	}
	outc.Key = strings.Join(ks, " | ")
	if v := VerdictViolation(&res, "C17", "concurrent"); v != nil {
		outc.Viol = v
		return res, outc
	}
	if res.Pruned {
		return res, outc
	}
	ccPositions(d.Log, ops)
	show := func(in, out interface{}) string {
		if out == nil {
			return in.(sOp).String()
		}
		return fmt.Sprintf("%s=>%+v", in.(sOp), clipOut(out.(sOut)))
	}
	recoverObs := func(img *vdisk.Image, pol int) ([]lin.Op, *vrt.Result) {
		var obs []lin.Op
		r := vrt.Run(vrt.Config{}, func() {
			srv := simpleRecover(vdisk.New(img))
			if pol == 1 {
				vrt.Quiesce()
			}
			for _, o := range []sOp{{K: "GETATTR", Ino: 2}, {K: "READ", Ino: 2, Off: 0, Cnt: 8192}, {K: "GETATTR", Ino: 3}, {K: "READ", Ino: 3, Off: 0, Cnt: 8192}, {K: "GETATTR", Ino: 31}} {
				obs = append(obs, lin.Op{Client: 99, In: o, Out: sDo(srv, o)})
			}
			vrt.Quiesce()
		})
		return obs, &r
	}
	if sig, detail := concCrashCheck(a.Name, base, d.Log, ops, sSpec{}, sOut{}, recoverObs, show, func(in interface{}) bool { return true }, a.Cap, &sCCStats); sig != "" {
		outc.Viol = &report.Violation{Property: "C17", Sig: sig, Detail: detail}
	}
	return res, outc
}

func init() {
	RegisterHarness("c17.conccrash", sCCHarness)
	Checks["C17"] = C17
	par.Register("c17.seq", sSeqJob)
	RegisterHarness("c17.conc", sConcHarness)
}

func C17(r *report.Report, tier string) {
	al := sAlphabet(tier)
	depth, cdepth, bound := 2, 2, 2
	if tier == "thorough" {
		depth, cdepth, bound = 3, 3, 3
	}
	r.Rule = fmt.Sprintf("specification: inodes 2..31 are files of at most 4096 bytes; sequential: every sequence of <=%d requests (from the initial state and from two non-initial states: a file written and then shrunk, a full file) over a %d-symbol alphabet (inode numbers {0,1,2,3,31,32,2^64-1} and numbers of the form k*2^n + small whose byte address wraps around; WRITE offsets {0,1,100,4095,4096,4097,2^64-1} x counts {0,1,100,4096,4097} x data lengths {count,count-1,count+1}; READs; SETATTR sizes up to 2^64-1; restart) - every reply (status, count, data, eof, size) and the final contents against the specification; crash: every crash image of every mutating history of depth <=%d recovered with simple.Recover under two schedules: contents = specification after a prefix containing every acknowledged request, and the server keeps serving; concurrent: all schedules with <=%d deviations of 2-3 clients on one file, brute-force linearizability; concurrent + crash: for every schedule (one deviation less, no state caching) of three 2-client harnesses every crash image of the recorded trace, at every cut at which it is possible: the requests acknowledged before the cut with their replies (reads included: the server keeps a file locked until its update is on disk), any subset of the pending ones and the contents after recovery must be linearizable", depth, len(al), cdepth, bound)
	var mut []sOp
	for _, o := range al {
		if (o.K == "WRITE" || o.K == "SETATTR") && o.Ino == 2 && (sSpec{}).apply(o).OK || (o.K == "WRITE" && o.Ino == 2 && o.Off <= 100 && o.Cnt == 100 && o.DLen == 0) {
			mut = append(mut, o)
		}
	}
	var jobs []interface{}
	var rec func(p []sOp, d int)
	rec = func(p []sOp, d int) {
		if len(p) > 0 {
			jobs = append(jobs, sSeqArg{Ops: append([]sOp{}, p...)})
		}
		if d == 0 {
			return
		}
		for _, o := range al {
			rec(append(p, o), d-1)
		}
	}
	rec(nil, depth)
	// the same sequences from non-initial states: a file written and then shrunk; a full file
	pres := [][]sOp{
		{{K: "WRITE", Ino: 2, Off: 0, Cnt: 4096, Pat: 0x61}, {K: "SETATTR", Ino: 2, Size: 50}},
		{{K: "WRITE", Ino: 2, Off: 0, Cnt: 4096, Pat: 0x63}},
	}
	n0 := len(jobs)
	for _, pre := range pres {
		for i := 0; i < n0; i++ {
			j := jobs[i].(sSeqArg)
			if tier != "thorough" && len(j.Ops) > 2 {
				continue
			}
			j.Pre = pre
			jobs = append(jobs, j)
		}
	}
	// ... and from a state in which the journal has wrapped around since the files were written (single requests)
	for i := 0; i < n0; i++ {
		j := jobs[i].(sSeqArg)
		if len(j.Ops) == 1 || (tier == "thorough" && len(j.Ops) == 2) {
			j.Pre = sLongPre()
			jobs = append(jobs, j)
		}
	}
	// crash histories over successful mutations (from non-initial states too)
	mut2 := append([]sOp{}, mut...)
	// the simple server acknowledges every write as FILE_SYNC, whatever stability was asked for
	mut2 = append(mut2, sOp{K: "WRITE", Ino: 2, Off: 0, Cnt: 100, Pat: 0x55, St: 2}, sOp{K: "WRITE", Ino: 2, Off: 50, Cnt: 4046, Pat: 0x57, St: 1})
	mut2 = append(mut2, sOp{K: "WRITE", Ino: 2, Off: 100, Cnt: 100, Pat: 0x51}, sOp{K: "WRITE", Ino: 3, Off: 0, Cnt: 4096, Pat: 0x53}, sOp{K: "SETATTR", Ino: 2, Size: 50})
	var crec func(p []sOp, d int)
	crec = func(p []sOp, d int) {
		if len(p) > 0 {
			jobs = append(jobs, sSeqArg{Ops: append([]sOp{}, p...), Crash: true})
		}
		if d == 0 {
			return
		}
		for _, o := range mut2 {
			crec(append(p, o), d-1)
		}
	}
	crec(nil, cdepth)
	for _, o := range mut2 {
		jobs = append(jobs, sSeqArg{Pre: sLongPre(), Ops: []sOp{o}, Crash: true})
	}
	states := map[string]bool{"": true}
	par.Map("c17.seq", jobs, par.Options{Deadline: Deadline, UlimitV: 12 << 20}, func(i int, res *par.Result) {
		if res.Skipped {
			r.Exhaustive = false
			r.Add("jobs_not_run_time_budget", 1)
			return
		}
		a := jobs[i].(sSeqArg)
		if res.Crashed || res.Err != "" {
			r.Violate(report.Violation{Sig: "worker-died|" + a.Ops[len(a.Ops)-1].String(), Detail: "history: " + sHist(a.Ops) + "\n" + res.Err + tail(res.Stderr, 3000), Replay: map[string]interface{}{"job": "c17.seq", "arg": a}})
			return
		}
		var x sSeqRes
		json.Unmarshal(res.Out, &x)
		r.Add("transitions", x.Transitions)
		r.Add("traces_validated_against_impl", 1+x.Recoveries)
		r.Add("crash_images", x.Images)
		r.Add("recoveries", x.Recoveries)
		if x.Capped > 0 {
			r.Exhaustive = false
		}
		for _, k := range x.Keys {
			states[k] = true
		}
		for _, k := range x.ImageKeys {
			r.Distinct(k)
		}
		for _, v := range x.Viols {
			r.Violate(*v)
		}
		if i%499 == 0 {
			r.Sample(map[string]interface{}{"history": sHist(a.Ops), "crash_images": x.Images})
		}
	})
	r.Add("histories", int64(len(jobs)))
	r.Add("states", int64(len(states)))
	W := func(off, cnt uint64, p byte) sOp { return sOp{K: "WRITE", Ino: 2, Off: off, Cnt: cnt, Pat: p} }
	hs := []sConcArg{
		{Clients: [][]sOp{{W(0, 100, 0x11)}, {W(50, 100, 0x22)}, {{K: "READ", Ino: 2, Off: 0, Cnt: 4096}}}},
		{Clients: [][]sOp{{W(0, 200, 0x11)}, {{K: "SETATTR", Ino: 2, Size: 50}}, {{K: "READ", Ino: 2, Off: 0, Cnt: 4096}, {K: "GETATTR", Ino: 2}}}},
		{Clients: [][]sOp{{W(0, 100, 0x11), W(100, 100, 0x12)}, {{K: "GETATTR", Ino: 2}, {K: "READ", Ino: 2, Off: 50, Cnt: 100}}}},
		{Clients: [][]sOp{{W(0, 4096, 0x21)}, {W(0, 1, 0x22)}, {{K: "GETATTR", Ino: 2}}}},
		// two different files (their inodes share one disk block)
		{Clients: [][]sOp{{W(0, 100, 0x31)}, {{K: "WRITE", Ino: 3, Off: 0, Cnt: 200, Pat: 0x32}}, {{K: "SETATTR", Ino: 31, Size: 300}}}},
	}
	var sums []*ExploreSummary
	for hi, h := range hs {
		b := bound
		independent := hi == len(hs)-1 // different files: one outcome is what the property demands
		if independent {
			b = bound - 1
		}
		s := ExploreAll(r, "c17.conc", h, b, vrt.PDiskW|vrt.PDiskR|vrt.PUnlock, false)
		if len(s.Outcomes) < 2 && !independent {
			r.Note("VACUOUS harness %+v: one outcome - nothing collided", h)
			r.Exhaustive = false
		}
		r.Sample(map[string]interface{}{"concurrent_harness": h, "executions": s.Execs, "distinct_outcomes": len(s.Outcomes)})
		s.Outcomes = map[string]int64{"(distinct outcomes)": int64(len(s.Outcomes))}
		sums = append(sums, s)
	}
	// concurrent clients and a crash (durable linearizability, reads included)
	for _, h := range []sCCArg{
		{Name: "write-vs-read", Clients: [][]sOp{{W(0, 100, 0x41)}, {{K: "READ", Ino: 2, Off: 0, Cnt: 4096}, {K: "GETATTR", Ino: 2}}}},
		{Name: "write-vs-write-same-file", Clients: [][]sOp{{W(0, 100, 0x42)}, {W(50, 100, 0x43)}}},
		{Name: "write-vs-setattr-other-file", Clients: [][]sOp{{W(0, 100, 0x44)}, {{K: "SETATTR", Ino: 3, Size: 300}, {K: "GETATTR", Ino: 3}}}},
	} {
		h.Cap = 64
		s := ExploreAllOpt(r, "c17.conccrash", h, bound-1, vrt.PDiskW|vrt.PUnlock, false, true)
		s.Harness = "conccrash:" + h.Name
		r.Sample(map[string]interface{}{"concurrent_crash_harness": h, "executions": s.Execs, "distinct_outcomes": len(s.Outcomes)})
		s.Outcomes = map[string]int64{"(distinct outcomes)": int64(len(s.Outcomes))}
		sums = append(sums, s)
	}
	r.Extra["concurrent"] = sums
	r.Extra["bounds"] = map[string]int{"depth": depth, "crash_depth": cdepth, "deviations": bound}
}
