package checks

import (
	"encoding/hex"
	"encoding/json"
	"fmt"

	"github.com/mit-pdos/go-journal/vrt"
	"github.com/mit-pdos/go-nfsd/nfstypes"
	"github.com/zeldovich/go-rpcgen/xdr"
	"verif/fsx"
	"verif/par"
	"verif/report"
	"verif/vdisk"
)

// ---- C11: no request can crash or wedge the server ----

type c11Arg struct {
	State string `json:"state"`
	Proc  string `json:"proc"`
	HIdx  int    `json:"hidx"` // index into the handle domain (first handle argument)
	Bytes bool   `json:"bytes"`
	Warm  bool   `json:"warm,omitempty"` // the request meets warm caches (a few lookups, reads and listings first) instead of a just-started server
}

// c11Warm fills the inode cache and the name caches of the objects the requests name.
func c11Warm(w *World, hs [][]byte) {
	root := fsx.RootFH()
	fsx.Exec(w.Srv, fsx.Op{K: "READDIRPLUS", DirCnt: 8192, MaxCnt: 8192}, root, nil)
	for _, n := range []string{"a", "d", "s", "new"} {
		fsx.Exec(w.Srv, fsx.Op{K: "LOOKUP", N: n}, root, nil)
	}
	if d := fsx.Exec(w.Srv, fsx.Op{K: "LOOKUP", N: "d"}, root, nil); d.OK() {
		fsx.Exec(w.Srv, fsx.Op{K: "LOOKUP", N: "x"}, d.FH, nil)
		fsx.Exec(w.Srv, fsx.Op{K: "READDIR", Cnt: 8192}, d.FH, nil)
	}
	if f := fsx.Exec(w.Srv, fsx.Op{K: "LOOKUP", N: "a"}, root, nil); f.OK() {
		fsx.Exec(w.Srv, fsx.Op{K: "READ", Off: 0, Cnt: 4096}, f.FH, nil)
	}
}

type c11Res struct {
	Calls   int64               `json:"calls"`
	Replies map[string]int64    `json:"replies"`
	Viols   []*report.Violation `json:"viols"`
}

func c11Setup(state string) (string, uint64, []fsx.Op) {
	// (the first objects land in recycled inodes: their generations differ from the root's)
	pop := []fsx.Op{{K: "MKDIR", H: "root", N: "t0"}, {K: "CREATE", H: "root", N: "t1"}, {K: "RMDIR", H: "root", N: "t0"}, {K: "REMOVE", H: "root", N: "t1"}, {K: "RESTART"},
		{K: "MKDIR", H: "root", N: "d"}, {K: "CREATE", H: "root", N: "a"}, {K: "WRITE", H: "root/a", Off: 0, Cnt: 9000, Pat: 0x61, Stable: 2}, {K: "CREATE", H: "root/d", N: "x"},
		{K: "SYMLINK", H: "root", N: "s", Target: "a"}, {K: "CREATE", H: "root", N: "gone"}, {K: "REMOVE", H: "root", N: "gone"}}
	switch state {
	case "populated":
		return "", 3000, pop
	case "inodes":
		// the inode table exhausted but for two numbers (prepared state: 32765 files), objects in recycled inodes
		return "inofull", 4000, []fsx.Op{{K: "REMOVE", H: "root/bulk", N: "f00000"}, {K: "REMOVE", H: "root/bulk", N: "f16000"}, {K: "REMOVE", H: "root/bulk", N: "f32700"},
			{K: "CREATE", H: "root", N: "gone"}, {K: "REMOVE", H: "root", N: "gone"}, {K: "SYMLINK", H: "root", N: "s", Target: "a"}}
	case "moveddir":
		// a directory that was moved into another parent (link counts and ".." of the parents), next to the usual objects
		return "", 3000, append(pop, fsx.Op{K: "MKDIR", H: "root", N: "e"}, fsx.Op{K: "MKDIR", H: "root/e", N: "m"}, fsx.Op{K: "CREATE", H: "root/e/m", N: "y"},
			fsx.Op{K: "RENAME", H: "root/e", N: "m", H2: "root/d", N2: "m"}, fsx.Op{K: "REMOVE", H: "root/d/m", N: "y"})
	case "maxsparse":
		return "", 3000, append(pop, fsx.Op{K: "CREATE", H: "root", N: "huge"}, fsx.Op{K: "SETATTR", H: "root/huge", Size: maxFile}, fsx.Op{K: "WRITE", H: "root/huge", Off: maxFile - 1, Cnt: 1, Pat: 0x62, Stable: 2})
	case "tinyfull":
		return "", 1539 + 1 + 6, append(pop, fsx.Op{K: "FILL"})
	}
	return "", 3000, nil
}

const c11NHandles = 22

// number of inodes of every disk the checks use (the table has a fixed size; C15 audits the layout)
const c11NInode = 1024 * 32

func c11Handles(w *World) [][]byte {
	raw := func(ino, gen uint64) []byte {
		b := make([]byte, 16)
		for i := 0; i < 8; i++ {
			b[i] = byte(ino >> (8 * i))
			b[8+i] = byte(gen >> (8 * i))
		}
		return b
	}
	get := func(v string) []byte { h, _ := w.Vars.Resolve(v); return h }
	long := make([]byte, 64)
	copy(long, get("root/a"))
	longd := make([]byte, 64)
	copy(longd, get("root/d"))
	return [][]byte{
		{}, {1, 2, 3}, make([]byte, 8), make([]byte, 15), get("root"), get("root/a"), get("root/d"), get("dead:root/gone"), get("root/s"),
		raw(0, 0), raw(1<<64-1, 1), raw(40000, 1), raw(500, 1), raw(2, 99), append(append([]byte{}, get("root/a")...), 0), long,
		append(append([]byte{}, get("root/d")...), 7), longd, // a directory's handle with trailing bytes
		// around the end of the inode table (1024 blocks of 32 inodes): the last number, the first one beyond it, the next
		raw(c11NInode-1, 0), raw(c11NInode, 0), raw(c11NInode, 1), raw(c11NInode+1, 0),
	}
}

var c11Names = []string{"", ".", "..", "a", "d", "m", "new", utf8Name(114), utf8Name(224), nameOfLen(111, 'l'), nameOfLen(112, 'l'), nameOfLen(113, 'l'), nameOfLen(255, 'l'), nameOfLen(256, 'l'), nameOfLen(4096, 'l')}
var c11NamesShort = []string{"", ".", "..", "a", "d", "x", "m", "new", nameOfLen(112, 'l'), nameOfLen(300, 'l')}
var c11BaseOffsets = []uint64{0, 1, 4095, 4096, 1 << 32, maxFile - 1, maxFile, 1 << 63, 1<<64 - 4096, 1<<64 - 10, 1<<64 - 1}
var c11Offsets = c11BaseOffsets

const c11MaxWrite = 4096*511 - 10*4096

// c11Calls enumerates the full product of the argument domains of one procedure for a fixed first handle.
func c11Calls(proc string, h []byte, hs [][]byte) []struct {
	Op    fsx.Op
	H, H2 []byte
} {
	type call = struct {
		Op    fsx.Op
		H, H2 []byte
	}
	var out []call
	add := func(o fsx.Op) { o.K = proc; out = append(out, call{o, h, nil}) }
	switch proc {
	case "GETATTR", "ACCESS", "READLINK", "FSSTAT", "FSINFO", "PATHCONF", "NULL":
		add(fsx.Op{})
	case "SETATTR":
		for _, sz := range c11Offsets {
			add(fsx.Op{Size: sz})
			add(fsx.Op{Size: sz, Mtime: 5, Atime: 6})
		}
		add(fsx.Op{NoSize: true, Mtime: 1<<32 - 1})
		for perm := 0; perm < 8; perm++ {
			for st := 0; st < 4; st++ {
				add(fsx.Op{NoSize: true, Perm: perm, STime: st})
				add(fsx.Op{Size: 100, Perm: perm, STime: st})
			}
		}
	case "LOOKUP", "MKDIR", "MKNOD", "REMOVE", "RMDIR":
		for _, n := range c11Names {
			add(fsx.Op{N: n})
		}
	case "CREATE":
		for _, n := range c11Names {
			for m := 0; m <= 3; m++ {
				add(fsx.Op{N: n, Mode: m})
			}
		}
	case "SYMLINK":
		for _, n := range c11Names {
			for _, t := range []string{"", "t", nameOfLen(4096, 't'), nameOfLen(70000, 't')} {
				add(fsx.Op{N: n, Target: t})
			}
		}
	case "READ", "COMMIT":
		for _, off := range c11Offsets {
			for _, c := range []uint64{0, 1, 4096, 65536, 1<<32 - 1} {
				add(fsx.Op{Off: off, Cnt: c})
			}
		}
	case "WRITE":
		for _, off := range c11Offsets {
			for _, st := range []int{0, 1, 2, 7} {
				for _, c := range []uint64{0, 1, 4096, c11MaxWrite - 1, c11MaxWrite, c11MaxWrite + 1, 1<<32 - 1} {
					lens := []int64{0} // 0 = exactly count
					if c <= 4096 {
						lens = append(lens, -1, int64(c)+1)
						if c > 0 {
							lens = append(lens, int64(c)-1)
						}
					} else if c > c11MaxWrite {
						lens = []int64{-1, 4096}
					} else {
						lens = append(lens, 4096)
					}
					for _, l := range lens {
						if l == 0 && st != 2 && c > 4096 {
							continue // the big payloads once per offset
						}
						add(fsx.Op{Off: off, Cnt: c, Stable: st, Len: l, Pat: 0x6f})
					}
				}
			}
		}
	case "READDIR":
		for _, ck := range []uint64{0, 128, 256, 64, 127, 1<<64 - 1, 1<<64 - 128, 4096 - 128, 4096} {
			for _, c := range []uint64{0, 1, 100, 1<<32 - 1} {
				add(fsx.Op{Cookie: ck, Cnt: c})
			}
		}
	case "READDIRPLUS":
		for _, ck := range []uint64{0, 128, 256, 64, 127, 1<<64 - 1, 1<<64 - 128, 4096 - 128, 4096} {
			for _, d := range []uint32{0, 1, 100, 1<<32 - 1} {
				for _, m := range []uint32{0, 1, 100, 1<<32 - 1} {
					add(fsx.Op{Cookie: ck, DirCnt: d, MaxCnt: m})
				}
			}
		}
	case "RENAME":
		for _, h2 := range hs {
			for _, n := range c11NamesShort {
				for _, n2 := range c11NamesShort {
					out = append(out, call{fsx.Op{K: proc, N: n, N2: n2}, h, h2})
				}
			}
		}
	case "LINK":
		for _, h2 := range hs {
			for _, n2 := range c11NamesShort {
				out = append(out, call{fsx.Op{K: proc, N2: n2}, h, h2})
			}
		}
	}
	return out
}

var c11Procs = []string{"NULL", "GETATTR", "SETATTR", "LOOKUP", "ACCESS", "READLINK", "READ", "WRITE", "CREATE", "MKDIR", "SYMLINK", "MKNOD", "REMOVE", "RMDIR", "RENAME", "LINK", "READDIR", "READDIRPLUS", "FSSTAT", "FSINFO", "PATHCONF", "COMMIT"}

func c11Sanity(w *World, n int) string {
	name := fmt.Sprintf("zz-sanity-%d", n)
	root := fsx.RootFH()
	c := fsx.Exec(w.Srv, fsx.Op{K: "CREATE", N: name}, root, nil)
	if !c.OK() {
		if c.Status == 28 {
			return "" // no space (tiny disk): nothing to say
		}
		return fmt.Sprintf("CREATE %s: status %d", name, c.Status)
	}
	wr := fsx.Exec(w.Srv, fsx.Op{K: "WRITE", Off: 0, Cnt: 300, Pat: 0x5c, Stable: 2}, c.FH, nil)
	if wr.OK() {
		rd := fsx.Exec(w.Srv, fsx.Op{K: "READ", Off: 0, Cnt: 300}, c.FH, nil)
		if !rd.OK() || string(rd.Data) != string(fsx.PatBytes(0x5c, 0, 300)) {
			return fmt.Sprintf("READ after WRITE of %s: status %d, %d bytes", name, rd.Status, len(rd.Data))
		}
	} else if wr.Status != 28 {
		return fmt.Sprintf("WRITE %s: status %d", name, wr.Status)
	}
	l := fsx.Exec(w.Srv, fsx.Op{K: "LOOKUP", N: name}, root, nil)
	if !l.OK() || hex.EncodeToString(l.FH) != hex.EncodeToString(c.FH) {
		return fmt.Sprintf("LOOKUP %s: status %d", name, l.Status)
	}
	if r := fsx.Exec(w.Srv, fsx.Op{K: "REMOVE", N: name}, root, nil); !r.OK() {
		return fmt.Sprintf("REMOVE %s: status %d", name, r.Status)
	}
	if _, err := fsx.ListDir(w.Srv, root); err != nil {
		return "listing the root: " + err.Error()
	}
	// the directories of the state answer too (if they still exist)
	for _, dn := range []string{"d", "e"} {
		if dl := fsx.Exec(w.Srv, fsx.Op{K: "LOOKUP", N: dn}, root, nil); dl.OK() && dl.Attr != nil && dl.Attr.Type == 2 {
			if g := fsx.Exec(w.Srv, fsx.Op{K: "GETATTR"}, dl.FH, nil); !g.OK() {
				return fmt.Sprintf("GETATTR of directory %s: status %d", dn, g.Status)
			}
			if _, err := fsx.ListDir(w.Srv, dl.FH); err != nil {
				return "listing " + dn + ": " + err.Error()
			}
		}
	}
	return ""
}

func c11Job(raw json.RawMessage) (interface{}, error) {
	var a c11Arg
	json.Unmarshal(raw, &a)
	if a.Bytes {
		return c11BytesJob(a)
	}
	out := &c11Res{Replies: map[string]int64{}}
	prepName, size, setup := c11Setup(a.State)
	var img *vdisk.Image
	var prep *Prepared
	if prepName != "" {
		prep = prepared(prepName)
	} else {
		img = cachedMkfs(size)
	}
	// the named state is built once and snapshotted; every request then meets exactly that state on a fresh
	// server instance (requests of one batch must not destroy each other's preconditions)
	var stImg *vdisk.Image
	var stVars *fsx.Vars
	var hs [][]byte
	bres := vrt.Run(vrt.Config{Horizon: 100_000_000}, func() {
		var w *World
		if prep != nil {
			w = prep.World()
		} else {
			w = NewWorld(img)
		}
		w.Disk.Record = false
		w.Model.AllowImplFail = true
		for _, o := range setup {
			w.Do(o)
		}
		hs = c11Handles(w)
		if fi := fsx.Exec(w.Srv, fsx.Op{K: "FSINFO"}, fsx.RootFH(), nil); fi.OK() {
			m := fi.Info["maxfilesize"]
			c11Offsets = append(append([]uint64{}, c11BaseOffsets...), m-4096, m-1, m)
		}
		w.Flush()
		vrt.Quiesce()
		w.Srv.ShutdownNfs()
		stImg, stVars = w.Disk.Snapshot().Flatten(), w.Vars
	})
	if v := VerdictViolation(&bres, "C11", "building state "+a.State); v != nil {
		out.Viols = append(out.Viols, v)
		return out, nil
	}
	_ = stVars
	calls := c11Calls(a.Proc, hs[a.HIdx], hs)
	start := 0
	for start < len(calls) {
		cur := -1
		var curDesc string
		res := vrt.Run(vrt.Config{Horizon: 100_000_000}, func() {
			for i := start; i < len(calls) && i < start+256; i++ {
				c := calls[i]
				cur = i
				curDesc = fmt.Sprintf("%s handle=%x handle2=%x", c.Op, c.H, c.H2)
				d := vdisk.New(stImg)
				d.Record = false
				w := &World{Disk: d, Vars: fsx.NewVars(), Model: nil}
				w.Srv = mkNfs(d)
				if a.Warm {
					c11Warm(w, nil)
				}
				vrt.SetHorizon(vrt.Steps() + 400_000) // per request: more scheduling points than that is a loop that never ends
				r := fsx.Exec(w.Srv, c.Op, c.H, c.H2)
				vrt.SetHorizon(vrt.Steps() + 20_000_000)
				out.Calls++
				out.Replies[fmt.Sprintf("%s=>%d", a.Proc, r.Status)]++
				if e := c11Sanity(w, i); e != "" {
					out.Viols = append(out.Viols, &report.Violation{Property: "C11", Sig: "not-serving-afterwards|" + a.Proc, Detail: fmt.Sprintf("state %s, after %s: %s", a.State, curDesc, e),
						Replay: map[string]interface{}{"job": "c11", "arg": a}})
					start = len(calls)
					return
				}
				vrt.Quiesce()
				w.Srv.ShutdownNfs()
			}
			start = cur + 1
		})
		if v := VerdictViolation(&res, "C11", a.Proc); v != nil {
			v.Detail = fmt.Sprintf("state %s, request %s\n%s", a.State, curDesc, v.Detail)
			v.Replay = map[string]interface{}{"job": "c11", "arg": a}
			if len(out.Viols) < 10 {
				out.Viols = append(out.Viols, v)
			}
			start = cur + 1 // continue with the next call
			if cur < 0 || len(out.Viols) >= 4 {
				break // (several requests of this batch already crash or wedge the server: the rest adds nothing)
			}
			continue
		}
	}
	return out, nil
}

// ---- byte level: every truncation, extension and word substitution of the XDR arguments of a valid request ----

func c11ValidArgs(w *World) map[uint32]xdr.Xdrable {
	fh := func(v string) nfstypes.Nfs_fh3 { h, _ := w.Vars.Resolve(v); return nfstypes.Nfs_fh3{Data: h} }
	dop := func(d, n string) nfstypes.Diropargs3 {
		return nfstypes.Diropargs3{Dir: fh(d), Name: nfstypes.Filename3(n)}
	}
	return map[uint32]xdr.Xdrable{
		nfstypes.NFSPROC3_GETATTR:     &nfstypes.GETATTR3args{Object: fh("root/a")},
		nfstypes.NFSPROC3_SETATTR:     &nfstypes.SETATTR3args{Object: fh("root/a"), New_attributes: nfstypes.Sattr3{Size: nfstypes.Set_size3{Set_it: true, Size: 100}, Mtime: nfstypes.Set_mtime{Set_it: nfstypes.SET_TO_CLIENT_TIME}}},
		nfstypes.NFSPROC3_LOOKUP:      &nfstypes.LOOKUP3args{What: dop("root", "a")},
		nfstypes.NFSPROC3_ACCESS:      &nfstypes.ACCESS3args{Object: fh("root/a"), Access: 0x3f},
		nfstypes.NFSPROC3_READLINK:    &nfstypes.READLINK3args{Symlink: fh("root/s")},
		nfstypes.NFSPROC3_READ:        &nfstypes.READ3args{File: fh("root/a"), Offset: 10, Count: 100},
		nfstypes.NFSPROC3_WRITE:       &nfstypes.WRITE3args{File: fh("root/a"), Offset: 10, Count: 12, Stable: nfstypes.FILE_SYNC, Data: []byte("hello world!")},
		nfstypes.NFSPROC3_CREATE:      &nfstypes.CREATE3args{Where: dop("root", "newc")},
		nfstypes.NFSPROC3_MKDIR:       &nfstypes.MKDIR3args{Where: dop("root", "newd")},
		nfstypes.NFSPROC3_SYMLINK:     &nfstypes.SYMLINK3args{Where: dop("root", "news"), Symlink: nfstypes.Symlinkdata3{Symlink_data: "target"}},
		nfstypes.NFSPROC3_MKNOD:       &nfstypes.MKNOD3args{Where: dop("root", "newn")},
		nfstypes.NFSPROC3_REMOVE:      &nfstypes.REMOVE3args{Object: dop("root/d", "x")},
		nfstypes.NFSPROC3_RMDIR:       &nfstypes.RMDIR3args{Object: dop("root", "d")},
		nfstypes.NFSPROC3_RENAME:      &nfstypes.RENAME3args{From: dop("root", "a"), To: dop("root/d", "b")},
		nfstypes.NFSPROC3_LINK:        &nfstypes.LINK3args{File: fh("root/a"), Link: dop("root", "l")},
		nfstypes.NFSPROC3_READDIR:     &nfstypes.READDIR3args{Dir: fh("root"), Cookie: 0, Count: 4096},
		nfstypes.NFSPROC3_READDIRPLUS: &nfstypes.READDIRPLUS3args{Dir: fh("root"), Cookie: 0, Dircount: 4096, Maxcount: 8192},
		nfstypes.NFSPROC3_FSSTAT:      &nfstypes.FSSTAT3args{Fsroot: fh("root")},
		nfstypes.NFSPROC3_FSINFO:      &nfstypes.FSINFO3args{Fsroot: fh("root")},
		nfstypes.NFSPROC3_PATHCONF:    &nfstypes.PATHCONF3args{Object: fh("root")},
		nfstypes.NFSPROC3_COMMIT:      &nfstypes.COMMIT3args{File: fh("root/a"), Offset: 0, Count: 0},
	}
}

var c11Words = []uint32{0, 1, 2, 3, 63, 64, 65, 0x7fffffff, 0xffffffff}

func c11Mutants(b []byte) [][]byte {
	var ms [][]byte
	for l := 0; l < len(b); l++ {
		ms = append(ms, append([]byte{}, b[:l]...))
	}
	ms = append(ms, append(append([]byte{}, b...), 0, 0, 0, 1))
	for i := 0; i+4 <= len(b); i += 4 {
		for _, w := range c11Words {
			m := append([]byte{}, b...)
			m[i], m[i+1], m[i+2], m[i+3] = byte(w>>24), byte(w>>16), byte(w>>8), byte(w)
			ms = append(ms, m)
		}
	}
	return ms
}

func c11BytesJob(a c11Arg) (interface{}, error) {
	out := &c11Res{Replies: map[string]int64{}}
	prepName, size, setup := c11Setup(a.State)
	var img *vdisk.Image
	var prep *Prepared
	if prepName != "" {
		prep = prepared(prepName)
	} else {
		img = cachedMkfs(size)
	}
	// as in the structural part: the state is built once, every message meets it on a fresh server instance
	type job struct {
		prog, proc uint32
		b          []byte
	}
	var jobs []job
	var stImg *vdisk.Image
	bres := vrt.Run(vrt.Config{Horizon: 100_000_000}, func() {
		var w *World
		if prep != nil {
			w = prep.World()
		} else {
			w = NewWorld(img)
		}
		w.Disk.Record = false
		w.Model.AllowImplFail = true
		for _, o := range setup {
			w.Do(o)
		}
		valid := c11ValidArgs(w)
		regs := append(nfstypes.NFS_PROGRAM_NFS_V3_regs(w.Srv), nfstypes.MOUNT_PROGRAM_MOUNT_V3_regs(w.Srv)...)
		for _, rg := range regs {
			var b []byte
			if rg.Prog == nfstypes.NFS_PROGRAM {
				if v, ok := valid[rg.Proc]; ok {
					b, _ = xdr.EncodeBuf(v)
				}
			} else if rg.Proc == nfstypes.MOUNTPROC3_MNT || rg.Proc == nfstypes.MOUNTPROC3_UMNT {
				p := nfstypes.Dirpath3("/export")
				b, _ = xdr.EncodeBuf(&p)
			}
			if a.Proc != "" && fmt.Sprintf("%d.%d", rg.Prog, rg.Proc) != a.Proc {
				continue
			}
			jobs = append(jobs, job{rg.Prog, rg.Proc, b})
			for _, m := range c11Mutants(b) {
				jobs = append(jobs, job{rg.Prog, rg.Proc, m})
			}
		}
		w.Flush()
		vrt.Quiesce()
		w.Srv.ShutdownNfs()
		stImg = w.Disk.Snapshot().Flatten()
	})
	if v := VerdictViolation(&bres, "C11", "building state "+a.State); v != nil {
		out.Viols = append(out.Viols, v)
		return out, nil
	}
	start := 0
	for start < len(jobs) {
		cur := -1
		var curDesc string
		res := vrt.Run(vrt.Config{Horizon: 100_000_000}, func() {
			for i := start; i < len(jobs) && i < start+256; i++ {
				j := jobs[i]
				cur = i
				curDesc = fmt.Sprintf("program %d procedure %d, argument bytes %x", j.prog, j.proc, j.b)
				d := vdisk.New(stImg)
				d.Record = false
				w := &World{Disk: d, Vars: fsx.NewVars()}
				w.Srv = mkNfs(d)
				if a.Warm {
					c11Warm(w, nil)
				}
				var h func(*xdr.XdrState) (xdr.Xdrable, error)
				for _, rg := range append(nfstypes.NFS_PROGRAM_NFS_V3_regs(w.Srv), nfstypes.MOUNT_PROGRAM_MOUNT_V3_regs(w.Srv)...) {
					if rg.Prog == j.prog && rg.Proc == j.proc {
						h = rg.Handler
					}
				}
				vrt.SetHorizon(vrt.Steps() + 400_000)
				resx, err := h(xdr.MakeReader(j.b))
				vrt.SetHorizon(vrt.Steps() + 20_000_000)
				out.Calls++
				if err != nil {
					out.Replies["rejected"]++
				} else {
					out.Replies["replied"]++
					if resx != nil {
						if _, e := xdr.EncodeBuf(resx); e != nil {
							out.Replies["reply-not-encodable"]++
						}
					}
				}
				if e := c11Sanity(w, i); e != "" {
					out.Viols = append(out.Viols, &report.Violation{Property: "C11", Sig: "bytes|not-serving-afterwards", Detail: fmt.Sprintf("state %s, after %s: %s", a.State, curDesc, e), Replay: map[string]interface{}{"job": "c11", "arg": a}})
					start = len(jobs)
					return
				}
				vrt.Quiesce()
				w.Srv.ShutdownNfs()
			}
			start = cur + 1
		})
		if v := VerdictViolation(&res, "C11", "bytes"); v != nil {
			v.Detail = fmt.Sprintf("state %s, %s\n%s", a.State, curDesc, v.Detail)
			v.Replay = map[string]interface{}{"job": "c11", "arg": a}
			if len(out.Viols) < 10 {
				out.Viols = append(out.Viols, v)
			}
			start = cur + 1
			if cur < 0 || len(out.Viols) >= 4 {
				break
			}
			continue
		}
	}
	return out, nil
}

func init() {
	Checks["C11"] = C11
	par.Register("c11", c11Job)
}

func C11(r *report.Report, tier string) {
	states := []string{"populated", "tinyfull", "maxsparse", "inodes", "moveddir"}
	r.Rule = "structural: per procedure the full product of boundary domains - 22 handles (empty, 3/8/15 bytes, root, file, directory, symlink, dead, inode 0 / 2^64-1 / beyond the table / the last number of the table, the first beyond it and the next / free / wrong generation, a file's and a directory's handle extended to 17 and 64 bytes), 15 names (empty, ., .., existing, new, 114 and 224 bytes in two-byte characters, 111/112/113/255/256/4096 bytes), 11 offsets/sizes up to 2^64-1, counts {0,1,4096,wtmax-1,wtmax,wtmax+1,2^32-1} with data lengths that agree and disagree, cookies, dircount/maxcount, stability and create modes incl. illegal ones; RENAME/LINK over all pairs of handles; in the states populated (objects in recycled inodes) / tiny full disk / maximal sparse file / inode table exhausted but for two numbers (32765 files) / a directory moved into another parent; bytes: for one valid request per procedure (22 NFS + 6 MOUNT) every truncation, an extension, and every substitution of each 32-bit word by {0,1,2,3,63,64,65,0x7fffffff,0xffffffff}, decoded and executed through the registered rpcgen handlers; every call and every mutated message meets the named state on a fresh server instance (snapshot; once just started with cold caches, and - quick: populated state, thorough: all states - once after lookups, reads and listings have filled the inode and name caches) under the controlled scheduler: a reply (or a decode rejection) must arrive - no panic, no deadlock, no runaway (400000 scheduling points per request) - and the sanity script (create, write, read back, lookup, remove, list) must succeed on the same instance afterwards. distinct_nontrivial = distinct (procedure, status) pairs"
	var jobs []interface{}
	var descs []c11Arg
	for _, st := range states {
		for _, p := range c11Procs {
			for hi := 0; hi < c11NHandles; hi++ {
				a := c11Arg{State: st, Proc: p, HIdx: hi}
				if p == "NULL" && hi > 0 {
					continue
				}
				jobs = append(jobs, a)
				descs = append(descs, a)
			}
		}
		a := c11Arg{State: st, Bytes: true}
		jobs = append(jobs, a)
		descs = append(descs, a)
	}
	// the same with warm caches (quick: the populated state; thorough: every state)
	for i, n := 0, len(descs); i < n; i++ {
		if a := descs[i]; tier == "thorough" || a.State == "populated" {
			a.Warm = true
			jobs = append(jobs, a)
			descs = append(descs, a)
		}
	}
	par.Map("c11", jobs, par.Options{UlimitV: 16 << 20}, func(i int, res *par.Result) {
		if res.Crashed || res.Err != "" {
			r.Violate(report.Violation{Sig: "worker-died|" + descs[i].Proc, Detail: fmt.Sprintf("%+v\n%s %s", descs[i], res.Err, tail(res.Stderr, 4000)), Replay: map[string]interface{}{"job": "c11", "arg": descs[i]}})
			return
		}
		var x c11Res
		json.Unmarshal(res.Out, &x)
		r.Add("transitions", x.Calls)
		r.Add("traces_validated_against_impl", x.Calls)
		r.Add("states", 1)
		for k := range x.Replies {
			r.Distinct(k)
		}
		for _, v := range x.Viols {
			r.Violate(*v)
		}
		if i%61 == 0 {
			r.Sample(map[string]interface{}{"job": descs[i], "calls": x.Calls, "replies": x.Replies})
		}
	})
}
