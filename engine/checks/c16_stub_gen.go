// Code generated; DO NOT EDIT.
package checks

import "github.com/mit-pdos/go-nfsd/nfstypes"

type c16Recorder struct{ last string }

func (r *c16Recorder) NFSPROC3_NULL() { r.last = "NFSPROC3_NULL" }
func (r *c16Recorder) NFSPROC3_GETATTR(a nfstypes.GETATTR3args) (x nfstypes.GETATTR3res) {
	r.last = "NFSPROC3_GETATTR"
	return
}
func (r *c16Recorder) NFSPROC3_SETATTR(a nfstypes.SETATTR3args) (x nfstypes.SETATTR3res) {
	r.last = "NFSPROC3_SETATTR"
	return
}
func (r *c16Recorder) NFSPROC3_LOOKUP(a nfstypes.LOOKUP3args) (x nfstypes.LOOKUP3res) {
	r.last = "NFSPROC3_LOOKUP"
	return
}
func (r *c16Recorder) NFSPROC3_ACCESS(a nfstypes.ACCESS3args) (x nfstypes.ACCESS3res) {
	r.last = "NFSPROC3_ACCESS"
	return
}
func (r *c16Recorder) NFSPROC3_READLINK(a nfstypes.READLINK3args) (x nfstypes.READLINK3res) {
	r.last = "NFSPROC3_READLINK"
	return
}
func (r *c16Recorder) NFSPROC3_READ(a nfstypes.READ3args) (x nfstypes.READ3res) {
	r.last = "NFSPROC3_READ"
	return
}
func (r *c16Recorder) NFSPROC3_WRITE(a nfstypes.WRITE3args) (x nfstypes.WRITE3res) {
	r.last = "NFSPROC3_WRITE"
	return
}
func (r *c16Recorder) NFSPROC3_CREATE(a nfstypes.CREATE3args) (x nfstypes.CREATE3res) {
	r.last = "NFSPROC3_CREATE"
	return
}
func (r *c16Recorder) NFSPROC3_MKDIR(a nfstypes.MKDIR3args) (x nfstypes.MKDIR3res) {
	r.last = "NFSPROC3_MKDIR"
	return
}
func (r *c16Recorder) NFSPROC3_SYMLINK(a nfstypes.SYMLINK3args) (x nfstypes.SYMLINK3res) {
	r.last = "NFSPROC3_SYMLINK"
	return
}
func (r *c16Recorder) NFSPROC3_MKNOD(a nfstypes.MKNOD3args) (x nfstypes.MKNOD3res) {
	r.last = "NFSPROC3_MKNOD"
	return
}
func (r *c16Recorder) NFSPROC3_REMOVE(a nfstypes.REMOVE3args) (x nfstypes.REMOVE3res) {
	r.last = "NFSPROC3_REMOVE"
	return
}
func (r *c16Recorder) NFSPROC3_RMDIR(a nfstypes.RMDIR3args) (x nfstypes.RMDIR3res) {
	r.last = "NFSPROC3_RMDIR"
	return
}
func (r *c16Recorder) NFSPROC3_RENAME(a nfstypes.RENAME3args) (x nfstypes.RENAME3res) {
	r.last = "NFSPROC3_RENAME"
	return
}
func (r *c16Recorder) NFSPROC3_LINK(a nfstypes.LINK3args) (x nfstypes.LINK3res) {
	r.last = "NFSPROC3_LINK"
	return
}
func (r *c16Recorder) NFSPROC3_READDIR(a nfstypes.READDIR3args) (x nfstypes.READDIR3res) {
	r.last = "NFSPROC3_READDIR"
	return
}
func (r *c16Recorder) NFSPROC3_READDIRPLUS(a nfstypes.READDIRPLUS3args) (x nfstypes.READDIRPLUS3res) {
	r.last = "NFSPROC3_READDIRPLUS"
	return
}
func (r *c16Recorder) NFSPROC3_FSSTAT(a nfstypes.FSSTAT3args) (x nfstypes.FSSTAT3res) {
	r.last = "NFSPROC3_FSSTAT"
	return
}
func (r *c16Recorder) NFSPROC3_FSINFO(a nfstypes.FSINFO3args) (x nfstypes.FSINFO3res) {
	r.last = "NFSPROC3_FSINFO"
	return
}
func (r *c16Recorder) NFSPROC3_PATHCONF(a nfstypes.PATHCONF3args) (x nfstypes.PATHCONF3res) {
	r.last = "NFSPROC3_PATHCONF"
	return
}
func (r *c16Recorder) NFSPROC3_COMMIT(a nfstypes.COMMIT3args) (x nfstypes.COMMIT3res) {
	r.last = "NFSPROC3_COMMIT"
	return
}
func (r *c16Recorder) MOUNTPROC3_NULL() { r.last = "MOUNTPROC3_NULL" }
func (r *c16Recorder) MOUNTPROC3_MNT(a nfstypes.Dirpath3) (x nfstypes.Mountres3) {
	r.last = "MOUNTPROC3_MNT"
	return
}
func (r *c16Recorder) MOUNTPROC3_DUMP() (x nfstypes.Mountopt3) { r.last = "MOUNTPROC3_DUMP"; return }
func (r *c16Recorder) MOUNTPROC3_UMNT(a nfstypes.Dirpath3)     { r.last = "MOUNTPROC3_UMNT" }
func (r *c16Recorder) MOUNTPROC3_UMNTALL()                     { r.last = "MOUNTPROC3_UMNTALL" }
func (r *c16Recorder) MOUNTPROC3_EXPORT() (x nfstypes.Exportsopt3) {
	r.last = "MOUNTPROC3_EXPORT"
	return
}
