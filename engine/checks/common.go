// Package checks holds the per-property drivers (alphabets, harnesses,
// oracles) built on the engines.
package checks

import (
	"encoding/json"
	"fmt"
	"os"
	"runtime"
	"sort"
	"strings"
	"time"

	"github.com/goose-lang/primitive/disk"
	"github.com/mit-pdos/go-journal/vrt"
	"github.com/mit-pdos/go-nfsd/kvs"
	"github.com/mit-pdos/go-nfsd/nfs"
	"github.com/mit-pdos/go-nfsd/simple"
	"verif/explore"
	"verif/par"
	"verif/report"
)

var Root = "/verif"

type CheckFn func(r *report.Report, tier string)

var Checks = map[string]CheckFn{}

// deadline for a tier run; when it passes, searches stop and report exhaustive=false.
var Deadline time.Time

func timeUp() bool { return !Deadline.IsZero() && time.Now().After(Deadline) }

// HarnessDeadline, if set, is the current harness's share of the time budget: a check that runs n harnesses
// gives harness i the i-th part of what is left, so that one expensive harness cannot starve the ones after it
// (a harness cut short makes the run non-exhaustive, like the global deadline does).
var HarnessDeadline time.Time

func fairShare(i, n int) {
	HarnessDeadline = time.Time{}
	if Deadline.IsZero() || i >= n {
		return
	}
	if rem := time.Until(Deadline); rem > 0 {
		HarnessDeadline = time.Now().Add(rem / time.Duration(n-i))
	}
}

func effDeadline() time.Time {
	if !HarnessDeadline.IsZero() && (Deadline.IsZero() || HarnessDeadline.Before(Deadline)) {
		return HarnessDeadline
	}
	return Deadline
}

type Outcome struct {
	Key  string            `json:"key"`  // canonical observable outcome of the execution
	Viol *report.Violation `json:"viol"` // violation found in this execution, if any
}

// HarnessFn runs one controlled execution of a harness.
type HarnessFn func(arg json.RawMessage, cfg vrt.Config) (vrt.Result, Outcome)

var harnesses = map[string]HarnessFn{}

// ExploreWorkers selects the worker executable/environment (C14 switches to the -race build).
var ExploreWorkers par.Options

func RegisterHarness(name string, fn HarnessFn) { harnesses[name] = fn }

type RunFnT = func(prefix []int) vrt.Result

type exploreArg struct {
	Harness      string          `json:"harness"`
	Arg          json.RawMessage `json:"arg"`
	Prefix       []int           `json:"prefix"`
	Bound        int             `json:"bound"`
	Points       int             `json:"points"`
	DaemonLast   bool            `json:"daemon_last"`
	Max          int64           `json:"max"`
	Single       bool            `json:"single"`   // run just this prefix (replay)
	NoCache      bool            `json:"no_cache"` // disable happens-before state caching
	DeadlineUnix int64           `json:"deadline"`
}

type exploreRes struct {
	Execs    int64               `json:"execs"`
	Pruned   int64               `json:"pruned"`
	States   int64               `json:"states"`
	Points   int64               `json:"points"`
	MaxPts   int                 `json:"max_pts"`
	Outcomes map[string]int64    `json:"outcomes"`
	Viols    []*report.Violation `json:"viols"`
	Capped   bool                `json:"capped"`
	Err      string              `json:"err"`
	Children [][]int             `json:"children,omitempty"`
	Sample   []int               `json:"sample,omitempty"`
}

func runExplore(raw json.RawMessage) (interface{}, error) {
	var a exploreArg
	if err := json.Unmarshal(raw, &a); err != nil {
		return nil, err
	}
	h := harnesses[a.Harness]
	if h == nil {
		return nil, fmt.Errorf("unknown harness %s", a.Harness)
	}
	res := &exploreRes{Outcomes: map[string]int64{}}
	seenSig := map[string]bool{}
	var out Outcome
	var visited *vrt.Visited
	if !a.NoCache && !a.Single {
		visited = vrt.NewVisited()
	}
	var run RunFnT = func(prefix []int) vrt.Result {
		var r vrt.Result
		r, out = h(a.Arg, vrt.Config{Prefix: prefix, Points: a.Points, DaemonEager: a.DaemonLast, Visited: visited})
		return r
	}
	visit := func(prefix []int, r *vrt.Result) bool {
		res.Outcomes[out.Key]++
		if out.Viol != nil && !seenSig[out.Viol.Sig] {
			seenSig[out.Viol.Sig] = true
			v := *out.Viol
			v.Replay = map[string]interface{}{"job": "explore", "arg": exploreArg{Harness: a.Harness, Arg: a.Arg,
				Prefix: trimZeros(explore.Choices(r.Points)), Points: a.Points, DaemonLast: a.DaemonLast, Single: true}}
			res.Viols = append(res.Viols, &v)
		}
		if a.DeadlineUnix > 0 && time.Now().Unix() > a.DeadlineUnix {
			res.Capped = true
			return false
		}
		return true
	}
	if raceLogPath != "" {
		// -race build (C14): after every execution look for new race reports
		inner := run
		run = func(prefix []int) vrt.Result {
			r := inner(prefix)
			for _, rep := range newRaceReports() {
				sig, ours := raceSignature(rep)
				if !ours || seenSig[sig] {
					continue
				}
				seenSig[sig] = true
				res.Viols = append(res.Viols, &report.Violation{Property: "C14", Sig: sig, Detail: rep,
					Replay: map[string]interface{}{"job": "explore", "race_build": true, "arg": exploreArg{Harness: a.Harness, Arg: a.Arg,
						Prefix: trimZeros(explore.Choices(r.Points)), Points: a.Points, DaemonLast: a.DaemonLast, Single: true}}})
			}
			return r
		}
	}
	if a.Single {
		r := run(a.Prefix)
		visit(a.Prefix, &r)
		res.Execs = 1
		res.Children = explore.ChildrenOf(a.Prefix, &r, a.Bound)
		res.Sample = explore.Choices(r.Points)
		if len(res.Sample) > 50_000 {
			res.Sample = res.Sample[:50_000]
		}
		res.MaxPts = len(r.Points)
		if r.Diverged {
			res.Err = "nondeterminism: " + r.Msg
		}
		return res, nil
	}
	st, err := explore.DFS(a.Prefix, a.Bound, a.Max, run, visit)
	res.Execs, res.Points, res.MaxPts = st.Executions, st.Points, st.MaxPoints
	res.Pruned = st.Pruned
	if visited != nil {
		res.States = int64(visited.Len())
	}
	res.Capped = res.Capped || st.Capped
	if err != nil {
		res.Err = err.Error()
	}
	return res, nil
}

func init() {
	par.Register("explore", runExplore)
}

type ExploreSummary struct {
	Harness  string           `json:"harness"`
	Bound    int              `json:"preemption_bound"`
	Execs    int64            `json:"executions"`
	Outcomes map[string]int64 `json:"outcomes"`
	MaxPts   int              `json:"max_choice_points"`
	Capped   bool             `json:"capped"`
	States   int64            `json:"distinct_states_visited"` // happens-before fingerprints x running thread, summed over worker shards
	Pruned   int64            `json:"executions_cut_at_known_state"`
	Sample   []int            `json:"sample_schedule,omitempty"` // the choice sequence of the default execution
}

// ExploreAll explores every schedule of a harness within the bound, sharded
// over worker processes by level-1 subtree.  Machinery errors (replay
// divergence) abort the process with status 2.
func ExploreAll(r *report.Report, name string, arg interface{}, bound, points int, daemonLast bool) *ExploreSummary {
	return ExploreAllOpt(r, name, arg, bound, points, daemonLast, false)
}

func ExploreAllOpt(r *report.Report, name string, arg interface{}, bound, points int, daemonLast bool, noCache bool) *ExploreSummary {
	ab, _ := json.Marshal(arg)
	base := exploreArg{Harness: name, Arg: ab, Bound: bound, Points: points, DaemonLast: daemonLast, NoCache: noCache}
	if dl := effDeadline(); !dl.IsZero() {
		base.DeadlineUnix = dl.Unix()
	}
	sum := &ExploreSummary{Harness: name, Bound: bound, Outcomes: map[string]int64{}}
	// determinism self-test: the default execution twice
	rootArg := base
	rootArg.Single = true
	var roots [2]exploreRes
	for i := 0; i < 2; i++ {
		if ExploreWorkers.Exe != "" {
			rs := par.Map("explore", []interface{}{rootArg}, ExploreWorkers, nil)
			if rs[0].Crashed || rs[0].Err != "" {
				fatal("harness %s: root execution failed in worker: %s %s", name, rs[0].Err, tail(rs[0].Stderr, 3000))
			}
			json.Unmarshal(rs[0].Out, &roots[i])
			continue
		}
		v, err := runExplore(mustJSON(rootArg))
		if err != nil {
			fatal("harness %s: %v", name, err)
		}
		roots[i] = *(v.(*exploreRes))
	}
	k0, k1 := keysOf(roots[0].Outcomes), keysOf(roots[1].Outcomes)
	if k0 != k1 || fmt.Sprint(roots[0].Sample) != fmt.Sprint(roots[1].Sample) {
		fatal("harness %s: default execution is not deterministic:\n%s\n%s", name, k0, k1)
	}
	merge := func(x *exploreRes) {
		sum.Execs += x.Execs
		for k, n := range x.Outcomes {
			sum.Outcomes[k] += n
		}
		if x.MaxPts > sum.MaxPts {
			sum.MaxPts = x.MaxPts
		}
		sum.Capped = sum.Capped || x.Capped
		sum.States += x.States
		sum.Pruned += x.Pruned
		for _, v := range x.Viols {
			r.Violate(*v)
		}
		if x.Err != "" {
			fatal("harness %s: %s", name, x.Err)
		}
	}
	merge(&roots[0])
	sum.Sample = roots[0].Sample
	kids := roots[0].Children
	var jobs []interface{}
	for _, k := range kids {
		j := base
		j.Prefix = k
		jobs = append(jobs, j)
	}
	opts := ExploreWorkers
	opts.Deadline = effDeadline()
	par.Map("explore", jobs, opts, func(i int, res *par.Result) {
		if res.Skipped {
			sum.Capped = true
			return
		}
		if res.Crashed || res.Err != "" {
			fatal("harness %s: worker failed on prefix %v: %s %s", name, kids[i], res.Err, tail(res.Stderr, 2000))
		}
		var x exploreRes
		if err := json.Unmarshal(res.Out, &x); err != nil {
			fatal("harness %s: %v", name, err)
		}
		merge(&x)
	})
	r.Add("traces_validated_against_impl", sum.Execs)
	r.Add("transitions", sum.Execs)
	r.Add("states", sum.States)
	r.Add("executions_cut_at_known_state", sum.Pruned)
	if sum.Capped {
		r.Exhaustive = false
	}
	return sum
}

// trimZeros drops the trailing default choices of a schedule (a replay takes choice 0 after its prefix anyway).
func trimZeros(c []int) []int {
	for len(c) > 0 && c[len(c)-1] == 0 {
		c = c[:len(c)-1]
	}
	return c
}

func keysOf(m map[string]int64) string {
	var ks []string
	for k := range m {
		ks = append(ks, k)
	}
	sort.Strings(ks)
	return strings.Join(ks, "\n")
}

func mustJSON(v interface{}) json.RawMessage {
	b, err := json.Marshal(v)
	if err != nil {
		panic(err)
	}
	return b
}

func fatal(f string, a ...interface{}) {
	fmt.Fprintf(os.Stderr, "MACHINERY ERROR: "+f+"\n", a...)
	os.Exit(2)
}

func tail(s string, n int) string {
	if len(s) > n {
		return s[len(s)-n:]
	}
	return s
}

// VerdictViolation turns a deadlock / horizon / panic verdict into a violation.
func VerdictViolation(res *vrt.Result, prop, what string) *report.Violation {
	if res.Verdict == vrt.VOK {
		return nil
	}
	v := &report.Violation{Property: prop}
	switch res.Verdict {
	case vrt.VPanic:
		v.Sig = fmt.Sprintf("panic|%s|%s|%s", what, firstLine(res.Msg), panicSite(res.Stack))
		v.Detail = res.Msg + "\n" + res.Stack
	case vrt.VDeadlock:
		v.Sig = fmt.Sprintf("deadlock|%s", what)
		v.Detail = "no enabled thread:\n" + strings.Join(res.Threads, "\n")
	case vrt.VHorizon:
		v.Sig = fmt.Sprintf("horizon|%s", what)
		v.Detail = res.Msg + "\n" + strings.Join(res.Threads, "\n")
	}
	return v
}

func firstLine(s string) string {
	if i := strings.IndexByte(s, '\n'); i >= 0 {
		return s[:i]
	}
	return s
}

// panicSite extracts the innermost frame inside go-nfsd / go-journal code.
func panicSite(stack string) string {
	lines := strings.Split(stack, "\n")
	for i := 0; i+1 < len(lines); i++ {
		l := lines[i]
		if strings.HasPrefix(l, "github.com/mit-pdos/") && !strings.Contains(l, "/vrt") {
			fn := l
			if j := strings.LastIndex(fn, "("); j > 0 {
				fn = fn[:j]
			}
			fn = strings.TrimPrefix(fn, "github.com/mit-pdos/")
			return fn
		}
	}
	return "?"
}

func ncpu() int { return runtime.NumCPU() }

// ---- race-report collection (only active in the -race build, see C14) ----

var raceLogPath = func() string {
	for _, kv := range strings.Fields(os.Getenv("GORACE")) {
		if strings.HasPrefix(kv, "log_path=") && vrt.RaceBuild {
			return fmt.Sprintf("%s.%d", kv[len("log_path="):], os.Getpid())
		}
	}
	return ""
}()

var raceLogOff int64

func newRaceReports() []string {
	st, err := os.Stat(raceLogPath)
	if err != nil || st.Size() <= raceLogOff {
		return nil
	}
	f, err := os.Open(raceLogPath)
	if err != nil {
		return nil
	}
	defer f.Close()
	buf := make([]byte, st.Size()-raceLogOff)
	f.ReadAt(buf, raceLogOff)
	raceLogOff = st.Size()
	var out []string
	for _, blk := range strings.Split(string(buf), "==================") {
		if strings.Contains(blk, "DATA RACE") {
			out = append(out, strings.TrimSpace(blk))
		}
	}
	return out
}

// raceSignature: the innermost frames of the two conflicting accesses; ours
// only if both lie in go-nfsd / go-journal code (not the harness, not vrt).
func raceSignature(rep string) (string, bool) {
	var tops []string
	lines := strings.Split(rep, "\n")
	for i, l := range lines {
		t := strings.TrimSpace(l)
		isAccess := (strings.HasPrefix(t, "Write at") || strings.HasPrefix(t, "Read at") || strings.HasPrefix(t, "Previous write at") || strings.HasPrefix(t, "Previous read at") ||
			strings.HasPrefix(t, "Atomic") || strings.HasPrefix(t, "Previous atomic")) && strings.Contains(t, "by ")
		if !isAccess {
			continue
		}
		top := "?"
		for j := i + 1; j < len(lines); j++ {
			f := strings.TrimSpace(lines[j])
			if f == "" {
				break
			}
			if strings.HasPrefix(f, "/") || strings.HasPrefix(f, "<") || strings.HasPrefix(f, "runtime.") || strings.HasPrefix(f, "sync/atomic.") {
				continue // (an atomic access is attributed to the function that performs it)
			}
			if k := strings.LastIndex(f, "("); k > 0 {
				f = f[:k]
			}
			top = f
			break
		}
		tops = append(tops, top)
	}
	if len(tops) < 2 {
		return "race|unparsed", false
	}
	ours := true
	for _, t := range tops[:2] {
		if !strings.HasPrefix(t, "github.com/mit-pdos/") || strings.Contains(t, "/vrt") {
			ours = false
		}
	}
	a, b := strings.TrimPrefix(tops[0], "github.com/mit-pdos/"), strings.TrimPrefix(tops[1], "github.com/mit-pdos/")
	if a > b {
		a, b = b, a
	}
	return "race|" + a + "|" + b, ours
}

// recoveryPoints: a server start (log recovery, allocators, root inode) takes a few thousand scheduling points; one that
// takes more than this is a runaway - e.g. the journal's recovery following a log header that the code under test has
// overwritten reads blocks (and keeps them) until the horizon, which at the default horizon costs gigabytes per worker.
const recoveryPoints = 150_000

// starting runs a server start under the recovery horizon and restores the horizon in force before.
func starting[T any](f func() T) T {
	old := vrt.Horizon()
	if h := vrt.Steps() + recoveryPoints; old == 0 || h < old {
		vrt.SetHorizon(h)
	}
	v := f()
	if old != 0 {
		vrt.SetHorizon(old)
	}
	return v
}

func mkNfs(d disk.Disk) *nfs.Nfs { return starting(func() *nfs.Nfs { return nfs.MakeNfs(d) }) }
func mkKVS(d disk.Disk, sz uint64) *kvs.KVS {
	return starting(func() *kvs.KVS { return kvs.MkKVS(d, sz) })
}
func simpleRecover(d disk.Disk) *simple.Nfs {
	return starting(func() *simple.Nfs { return simple.Recover(d) })
}
