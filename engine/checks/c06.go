package checks

import (
	"encoding/json"
	"fmt"
	"sort"
	"strings"
	"time"

	"github.com/mit-pdos/go-journal/vrt"
	"verif/fsx"
	"verif/par"
	"verif/reffs"
	"verif/report"
)

// ---- C06: no deadlock or livelock ----

// (a) sequential: every RPC of a coincidence-rich alphabet terminates in every
// reachable state (self-wait, deadlock and horizon verdicts of a single client).
func c06Alphabet() []fsx.Op {
	al := []fsx.Op{
		{K: "MKDIR", H: "root", N: "d"}, {K: "MKDIR", H: "root/d", N: "y"}, {K: "CREATE", H: "root/d", N: "x"}, {K: "CREATE", H: "root", N: "a"},
		{K: "RMDIR", H: "root", N: "d"}, {K: "REMOVE", H: "root", N: "a"}, {K: "RESTART"},
		// renames whose inodes coincide or are ordered arbitrarily
		{K: "RENAME", H: "root", N: "a", H2: "root", N2: "."},
		{K: "RENAME", H: "root", N: "a", H2: "root", N2: ".."},
		{K: "RENAME", H: "root", N: "d", H2: "root/d", N2: "y"},   // directory into itself, over an existing entry
		{K: "RENAME", H: "root", N: "d", H2: "root/d", N2: "new"}, // directory into itself
		{K: "RENAME", H: "root/d", N: "x", H2: "root", N2: "d"},   // over its own parent directory
		{K: "RENAME", H: "root/d", N: "y", H2: "root", N2: "d"},
		{K: "RENAME", H: "root", N: "a", H2: "root", N2: "d"},
		{K: "RENAME", H: "root", N: "d", H2: "root", N2: "a"},
		{K: "RENAME", H: "root/d", N: "x", H2: "root/d", N2: "y"},
		{K: "RENAME", H: "root/d", N: "x", H2: "root", N2: "a"}, // between two directories, over an existing file
		{K: "RENAME", H: "root", N: "a", H2: "root/d", N2: "x"},
		{K: "RENAME", H: "root/d", N: "y", H2: "root/d/y", N2: "z"},
		{K: "RENAME", H: "dead:root/d", N: "x", H2: "root", N2: "q"},
		{K: "RENAME", H: "root", N: "a", H2: "dead:root/d", N2: "q"},
		// (search "regen": t's inode number is d's now) a stale directory handle with the number of the live directory on the other side, existing names
		{K: "RENAME", H: "root/d", N: "x", H2: "dead:root/t", N2: "y"},
		{K: "RENAME", H: "dead:root/t", N: "x", H2: "root/d", N2: "y"},
		{K: "REMOVE", H: "root/d", N: "."}, {K: "RMDIR", H: "root/d", N: ".."}, {K: "REMOVE", H: "root", N: "d"},
		{K: "LOOKUP", H: "root/d", N: ".."}, {K: "LOOKUP", H: "root/d", N: "."}, {K: "LOOKUP", H: "root/d/y", N: ".."},
		{K: "READDIRPLUS", H: "root/d", DirCnt: 1 << 20, MaxCnt: 1 << 20}, {K: "READDIRPLUS", H: "root", DirCnt: 1 << 20, MaxCnt: 1 << 20},
		{K: "READDIR", H: "root/d", Cnt: 1 << 20},
		{K: "SETATTR", H: "root/a", Size: 700 * 4096}, {K: "SETATTR", H: "root/a", Size: 0}, {K: "WRITE", H: "root/a", Off: 0, Cnt: 10, Pat: 1, Stable: 2},
	}
	return al
}

func c06After(w *World, path []fsx.Op, r fsx.Reply, implFail bool, mis *reffs.Mismatch, viol func(sig, detail string)) {
	// semantics are C02's business; here only termination matters (verdicts are reported by the engine)
}

// key for the C06 search: model state + inode numbers (lock order depends on them)
func c06Key(w *World) string { return w.defaultKey() }

// (b) predictive lock-order analysis: lock traces of single operations
type lockArg struct {
	Setup []fsx.Op `json:"setup"`
	Path  []fsx.Op `json:"path"`
}

type lockEdge struct {
	Held, Acq uint64
}

type lockTrace struct {
	Op    fsx.Op      `json:"op"`
	Class string      `json:"class"`
	Edges [][2]uint64 `json:"edges"` // acquired [1] while holding [0]
}

type lockRes struct {
	Traces []lockTrace         `json:"traces"`
	Viols  []*report.Violation `json:"viols,omitempty"`
}

func c06Probes() []fsx.Op {
	var ps []fsx.Op
	for _, d := range []string{"root", "root/d", "root/d/y", "root/d2", "root/d2/sub"} {
		for _, n := range []string{".", "..", "a", "x", "y", "sub", "d", "d2"} {
			ps = append(ps, fsx.Op{K: "LOOKUP", H: d, N: n})
		}
		ps = append(ps, fsx.Op{K: "READDIRPLUS", H: d, DirCnt: 1 << 20, MaxCnt: 1 << 20}, fsx.Op{K: "READDIR", H: d, Cnt: 1 << 20},
			fsx.Op{K: "CREATE", H: d, N: "new"}, fsx.Op{K: "MKDIR", H: d, N: "newd"})
		for _, n := range []string{"a", "x", "y", "sub"} {
			ps = append(ps, fsx.Op{K: "REMOVE", H: d, N: n}, fsx.Op{K: "RMDIR", H: d, N: n})
			for _, d2 := range []string{"root", "root/d", "root/d2"} {
				for _, n2 := range []string{"a", "x", "new2"} {
					ps = append(ps, fsx.Op{K: "RENAME", H: d, N: n, H2: d2, N2: n2})
				}
			}
		}
	}
	for _, f := range []string{"root/a", "root/d/x"} {
		ps = append(ps, fsx.Op{K: "GETATTR", H: f}, fsx.Op{K: "WRITE", H: f, Off: 0, Cnt: 10, Pat: 1, Stable: 2}, fsx.Op{K: "SETATTR", H: f, Size: 5})
	}
	return ps
}

func lockJob(raw json.RawMessage) (interface{}, error) {
	var a lockArg
	json.Unmarshal(raw, &a)
	out := &lockRes{}
	base := cachedMkfs(3000)
	for _, op := range c06Probes() {
		var tr lockTrace
		enabled := false
		seenEdge := map[[2]uint64]bool{}
		res := vrt.Run(vrt.Config{Horizon: 100_000_000}, func() {
			w := NewWorld(base)
			for _, o := range a.Setup {
				w.Do(o)
			}
			for _, o := range a.Path {
				w.Do(o)
			}
			if !w.Enabled(op) {
				return
			}
			enabled = true
			tr.Op, tr.Class = op, w.OpClass(op)
			held := map[uint64]bool{}
			me := vrt.CurID()
			vrt.SetLockObs(func(tid, kind int, addr uint64) {
				if tid != me {
					return
				}
				if kind == 0 {
					for h := range held {
						if e := [2]uint64{h, addr}; !seenEdge[e] {
							seenEdge[e] = true
							tr.Edges = append(tr.Edges, e)
						}
					}
					held[addr] = true
				} else {
					delete(held, addr)
				}
			})
			vrt.SetHorizon(vrt.Steps() + 400_000) // (a single request alone: more than that is a loop that never ends)
			w.Do(op)
			vrt.SetHorizon(vrt.Steps() + 20_000_000)
			vrt.SetLockObs(nil)
		})
		if v := VerdictViolation(&res, "C06", "alone|"+tr.Class); v != nil {
			v.Detail = "history: " + fsx.Hist(append(append(append([]fsx.Op{}, a.Setup...), a.Path...), op)) + "\n" + v.Detail
			v.Replay = map[string]interface{}{"job": "c06.locks", "arg": a}
			if len(out.Viols) < 4 {
				out.Viols = append(out.Viols, v)
			}
			continue
		}
		if enabled && len(tr.Edges) > 0 {
			sort.Slice(tr.Edges, func(i, j int) bool {
				if tr.Edges[i][0] != tr.Edges[j][0] {
					return tr.Edges[i][0] < tr.Edges[j][0]
				}
				return tr.Edges[i][1] < tr.Edges[j][1]
			})
			out.Traces = append(out.Traces, tr)
		}
	}
	return out, nil
}

func init() {
	Checks["C06"] = C06
	RegisterSeq("c06.seq", &SeqSpec{Prop: "C06", DiskSize: 3000, Alphabet: c06Alphabet(), After: c06After})
	// directories living in recycled inodes (generation differs from the root's)
	RegisterSeq("c06.seq.regen", &SeqSpec{Prop: "C06", DiskSize: 3000, Setup: []fsx.Op{{K: "MKDIR", H: "root", N: "t"}, {K: "RMDIR", H: "root", N: "t"}, {K: "RESTART"}}, Alphabet: c06Alphabet(), After: c06After})
	// one client truncating and re-growing a file whose truncation is finished in the background, again and again
	// (shrinker threads accumulate while the client never waits)
	RegisterSeq("c06.trunc", &SeqSpec{Prop: "C06", DiskSize: 3000, Setup: []fsx.Op{{K: "CREATE", H: "root", N: "a"}, {K: "CREATE", H: "root", N: "b"}}, After: c06After,
		Alphabet: []fsx.Op{{K: "SETATTR", H: "root/a", Size: 700 * 4096}, {K: "SETATTR", H: "root/a", Size: 0}, {K: "SETATTR", H: "root/a", Size: 4096 + 7}, {K: "SETATTR", H: "root/b", Size: 900 * 4096},
			{K: "REMOVE", H: "root", N: "b"}, {K: "WRITE", H: "root/a", Off: 0, Cnt: 10, Pat: 1, Stable: 2}}})
	RegisterSeq("c06.seq.inv", &SeqSpec{Prop: "C06", DiskSize: 3000, Setup: invertedSetup, Alphabet: c06Alphabet(), After: c06After})
	par.Register("c06.locks", lockJob)
}

func C06(r *report.Report, tier string) {
	depth, bound := 3, 2
	if tier == "thorough" {
		depth, bound = 4, 3
	}
	r.Rule = fmt.Sprintf("(a) breadth-first search to depth %d over a %d-symbol alphabet of requests whose inodes coincide or are ordered arbitrarily (rename onto . / .., directory into itself, over its own parent, stale handles, cold caches after restart), from a fresh image, an inode-inverted image and an image whose next directory lands in a recycled inode (generation different from the root's): a single client must never wait on itself, deadlock or exceed the scheduling-point horizon; a further search (depth four more) over truncations and re-growths of files whose truncation is finished in the background (shrinker threads accumulate); (b) in six named states and in every state reached by a few shape-changing operations from a fresh and from an inode-inverted image (children with smaller and larger inode numbers than their parents), each with warm and with cold caches, the lock-acquisition trace of every probe operation is recorded, every pair of operations whose traces acquire two inode locks in opposite orders is a predicted deadlock, and each prediction is confirmed or refuted by exploring all schedules with <=%d deviations of the two operations run concurrently from that state - only a real deadlock schedule is a violation; (c) deadlock/horizon verdicts of all schedules with <=1 deviation of the C03 harnesses that involve renames, inverted inode numbers or background frees (horizon 400000 scheduling points)", depth, len(c06Alphabet()), bound)
	r.Only = map[string]bool{"C06": true}
	s1 := RunSeq(r, "c06.seq", depth)
	s2 := RunSeq(r, "c06.seq.inv", depth-1)
	s3 := RunSeq(r, "c06.seq.regen", depth+1)
	s4 := RunSeq(r, "c06.trunc", depth+4)
	r.Extra["searches"] = []*SeqSummary{s1, s2, s3, s4}
	// (b)
	states := []lockArg{
		{Setup: []fsx.Op{{K: "MKDIR", H: "root", N: "d"}, {K: "MKDIR", H: "root/d", N: "y"}, {K: "CREATE", H: "root/d", N: "x"}, {K: "CREATE", H: "root", N: "a"}}},
		{Setup: []fsx.Op{{K: "MKDIR", H: "root", N: "d"}, {K: "MKDIR", H: "root/d", N: "y"}, {K: "CREATE", H: "root/d", N: "x"}, {K: "CREATE", H: "root", N: "a"}, {K: "RESTART"}}},
		{Setup: append(append([]fsx.Op{}, invertedSetup...), fsx.Op{K: "MKDIR", H: "root/d2", N: "sub"}, fsx.Op{K: "CREATE", H: "root/d2/sub", N: "x"}, fsx.Op{K: "CREATE", H: "root/d2", N: "a"}, fsx.Op{K: "CREATE", H: "root", N: "a"})},
		{Setup: append(append([]fsx.Op{}, invertedSetup...), fsx.Op{K: "MKDIR", H: "root/d2", N: "sub"}, fsx.Op{K: "CREATE", H: "root/d2/sub", N: "x"}, fsx.Op{K: "CREATE", H: "root/d2", N: "a"}, fsx.Op{K: "CREATE", H: "root", N: "a"}, fsx.Op{K: "RESTART"})},
	}
	// two directories whose numbers interleave with those of a sub-directory and of an empty target directory
	// (d < d/y < d2 < d2/x): a directory renamed over a directory in the other parent against a rename out of it
	states = append(states, lockArg{Setup: []fsx.Op{{K: "MKDIR", H: "root", N: "d"}, {K: "MKDIR", H: "root/d", N: "y"}, {K: "MKDIR", H: "root", N: "d2"}, {K: "MKDIR", H: "root/d2", N: "x"}, {K: "CREATE", H: "root/d/y", N: "a"}, {K: "CREATE", H: "root/d2", N: "a"}}},
		lockArg{Setup: []fsx.Op{{K: "MKDIR", H: "root", N: "d"}, {K: "MKDIR", H: "root/d", N: "y"}, {K: "MKDIR", H: "root", N: "d2"}, {K: "MKDIR", H: "root/d2", N: "x"}, {K: "CREATE", H: "root/d/y", N: "a"}, {K: "CREATE", H: "root/d2", N: "a"}, {K: "RESTART"}}})
	// plus every state reached by <= 2 shape-changing operations from the fresh and the inverted image, warm and cold
	shape := []fsx.Op{{K: "MKDIR", H: "root", N: "d"}, {K: "MKDIR", H: "root/d", N: "y"}, {K: "CREATE", H: "root/d", N: "x"}, {K: "CREATE", H: "root", N: "a"},
		{K: "MKDIR", H: "root/d2", N: "sub"}, {K: "CREATE", H: "root/d2", N: "a"}, {K: "CREATE", H: "root/d2/sub", N: "x"}, {K: "RMDIR", H: "root", N: "d"}, {K: "REMOVE", H: "root", N: "a"}}
	shapeDepth := 2
	if tier == "thorough" {
		shapeDepth = 3
	}
	for _, base := range [][]fsx.Op{nil, invertedSetup} {
		var rec func(p []fsx.Op, d int)
		rec = func(p []fsx.Op, d int) {
			if len(p) > 0 {
				full := append(append([]fsx.Op{}, base...), p...)
				states = append(states, lockArg{Setup: full}, lockArg{Setup: append(append([]fsx.Op{}, full...), fsx.Op{K: "RESTART"})})
			}
			if d == 0 {
				return
			}
			for _, o := range shape {
				rec(append(p, o), d-1)
			}
		}
		rec(nil, shapeDepth)
	}
	var args []interface{}
	for _, s := range states {
		args = append(args, s)
	}
	type pred struct {
		st   int
		x, y lockTrace
	}
	var preds []pred
	seenPair := map[string]bool{}
	ntraces := 0
	results := par.Map("c06.locks", args, par.Options{}, nil)
	for si, res := range results {
		if res.Crashed || res.Err != "" {
			r.Violate(report.Violation{Sig: "worker-died|locks", Detail: res.Err + tail(res.Stderr, 2000)})
			continue
		}
		var x lockRes
		json.Unmarshal(res.Out, &x)
		ntraces += len(x.Traces)
		for _, v := range x.Viols {
			r.Violate(*v)
		}
		for i := 0; i < len(x.Traces); i++ {
			for j := i; j < len(x.Traces); j++ {
				a, b := x.Traces[i], x.Traces[j]
				inv := false
				for _, e := range a.Edges {
					for _, f := range b.Edges {
						if e[0] == f[1] && e[1] == f[0] {
							inv = true
						}
					}
				}
				if !inv {
					continue
				}
				k := fmt.Sprintf("%s|%s", a.Class, b.Class)
				if seenPair[k] {
					continue
				}
				seenPair[k] = true
				preds = append(preds, pred{si, a, b})
			}
		}
	}
	r.Add("lock_traces", int64(ntraces))
	r.Add("predicted_inversions", int64(len(preds)))
	confirmed, refuted := 0, 0
	for _, p := range preds {
		if timeUp() {
			r.Exhaustive = false
			r.Note("not every predicted inversion was explored (time budget)")
			break
		}
		h := concArg{Name: "pair|" + p.x.Class + "|" + p.y.Class, DiskSize: 3000, Setup: states[p.st].Setup, Clients: [][]fsx.Op{{p.x.Op}, {p.y.Op}}}
		before := r.NViolations()
		s := ExploreAll(r, "nfs.conc", h, bound, vrt.PUnlock, false)
		if r.NViolations() > before {
			confirmed++
		} else {
			refuted++
		}
		r.Distinct(h.Name)
		if confirmed+refuted <= 6 {
			r.Sample(map[string]interface{}{"predicted_inversion": h.Name, "executions": s.Execs, "deadlock_found": r.NViolations() > before})
		}
	}
	// (c) the concurrent harnesses on trees with inverted inode numbers and with background frees: deadlock and horizon verdicts
	var chs []concArg
	for _, h := range concHarnesses() {
		if strings.Contains(h.Name, "inverted") || strings.Contains(h.Name, "big") || strings.Contains(h.Name, "rename") {
			chs = append(chs, h)
		}
	}
	for hi, h := range chs {
		fairShare(hi, len(chs))
		if timeUp() {
			r.Exhaustive = false
			break
		}
		s := ExploreAll(r, "nfs.conc", h, 1, vrt.PUnlock, false)
		r.Distinct("harness|" + h.Name)
		r.Sample(map[string]interface{}{"harness": h.Name, "executions": s.Execs})
	}
	HarnessDeadline = time.Time{}
	r.Add("predictions_confirmed", int64(confirmed))
	r.Add("predictions_refuted", int64(refuted))
	r.Extra["bounds"] = map[string]int{"depth": depth, "deviations": bound}
}
