package checks

import (
	"encoding/json"
	"fmt"
	"sort"
	"strings"

	"github.com/mit-pdos/go-journal/vrt"
	"verif/fsck"
	"verif/fsx"
	"verif/par"
	"verif/reffs"
	"verif/report"
	"verif/vdisk"
)

// ---- C09: a failed operation leaves no trace (differential) ----

func c09Build() []fsx.Op {
	return []fsx.Op{
		{K: "CREATE", H: "root", N: "a"},
		{K: "MKDIR", H: "root", N: "d"},
		{K: "WRITE", H: "root/a", Off: 0, Cnt: 4096, Pat: 0x11, Stable: 2},
		{K: "WRITE", H: "root/a", Off: 7 * 4096, Cnt: 4096, Pat: 0x12, Stable: 2},
		{K: "CREATEMANY", H: "root/d", N: "e", Cnt: 30},                          // fills the first block of d (32 entries)
		{K: "WRITE", H: "root/a", Off: 700 * 4096, Cnt: 1, Pat: 0x13, Stable: 2}, // sparse: a 700-block hole
		{K: "CREATE", H: "root/d", N: "x"},
		{K: "FILL"},
		{K: "REMOVE", H: "root", N: "a"},
	}
}

func c09Candidates() []fsx.Op {
	long := nameOfLen(200, 'q')
	return []fsx.Op{
		{K: "RENAME", H: "root", N: "a", H2: "root", N2: nameOfLen(113, 'q')},
		{K: "RENAME", H: "root", N: "a", H2: "root", N2: long},
		{K: "RENAME", H: "root", N: "a", H2: "root/d", N2: "moved"}, // target directory must grow (no block left)
		{K: "RENAME", H: "root/d", N: "x", H2: "root/d", N2: "moved2"},
		{K: "CREATE", H: "root", N: long}, {K: "MKDIR", H: "root", N: long}, {K: "SYMLINK", H: "root", N: long, Target: "t"},
		{K: "CREATE", H: "root/d", N: "new"}, {K: "MKDIR", H: "root", N: "nd"}, {K: "MKDIR", H: "root/d", N: "nd"}, {K: "SYMLINK", H: "root", N: "ns", Target: "target"},
		{K: "WRITE", H: "root/a", Off: 4096, Cnt: 3 * 4096, Pat: 0x21, Stable: 2},
		{K: "WRITE", H: "root/a", Off: 8 * 4096, Cnt: 10, Pat: 0x22, Stable: 2},         // needs an indirect block and a data block
		{K: "WRITE", H: "root/a", Off: (8 + 512) * 4096, Cnt: 10, Pat: 0x23, Stable: 2}, // double-indirect: three blocks
		{K: "WRITE", H: "root/a", Off: 100, Cnt: 5 * 4096, Pat: 0x24, Stable: 0},
		{K: "WRITE", H: "root/a", Off: 0, Cnt: 4096 * 511, Len: 4096, Pat: 0x25, Stable: 2}, // oversized count
		{K: "SETATTR", H: "root/a", Size: maxFile + 1},
		{K: "RMDIR", H: "root", N: "d"}, {K: "REMOVE", H: "root", N: "d"}, {K: "RMDIR", H: "root", N: "a"},
		{K: "CREATE", H: "dead:root/a", N: "z"}, {K: "WRITE", H: "dead:root/a", Off: 0, Cnt: 10, Pat: 1, Stable: 2},
		{K: "READ", H: "root/a", Off: 4096, Cnt: 6 * 4096}, // hole-filling read without space
		// transactions that fail only at commit because they exceed the journal (large disk)
		{K: "READ", H: "root/a", Off: 8 * 4096, Cnt: 600 * 4096},                  // materialises 600 hole blocks at once
		{K: "SYMLINK", H: "root", N: "biglink", Target: nameOfLen(520*4096, 't')}, // a 520-block link target
		{K: "SETATTR", H: "root/a", Size: 3, Mtime: 5},
	}
}

func c09Suffix() []fsx.Op {
	return []fsx.Op{
		{K: "CREATE", H: "root", N: "s1"}, {K: "MKDIR", H: "root", N: "s2"}, {K: "WRITE", H: "root/a", Off: 0, Cnt: 100, Pat: 0x31, Stable: 2},
		{K: "REMOVE", H: "root", N: "a"}, {K: "SETATTR", H: "root/a", Size: 0}, {K: "RENAME", H: "root", N: "a", H2: "root", N2: "b"}, {K: "RESTART"},
		{K: "REMOVE", H: "root/d", N: "x"},
	}
}

type c09Arg struct {
	Disk uint64   `json:"disk"`
	Prep string   `json:"prep,omitempty"` // start from this prepared state instead of a fresh disk
	Path []fsx.Op `json:"path"`
	L    int      `json:"l"`
	Only int      `json:"only,omitempty"` // just this candidate (index+1); 0: all
}

type c09Res struct {
	Transitions int64               `json:"transitions"`
	Failing     []string            `json:"failing"` // candidate classes that failed in this state
	Runs        int64               `json:"runs"`
	Viols       []*report.Violation `json:"viols"`
}

type c09Obs struct {
	dump   string
	nohand string
	disk   string // the file system's own records on the (logical) disk: see diskSummary
	fb, fi uint64
	errs   []string
	status []uint32
	ok     bool
}

// run path (+cand) (+suffix) on a fresh instance and observe
func c09Run(a c09Arg, ops []fsx.Op, audit bool) (c09Obs, vrt.Result) {
	var o c09Obs
	var img *vdisk.Image
	var prep *Prepared
	hz := 3_000_000
	if a.Prep != "" {
		prep, hz = prepared(a.Prep), 100_000_000
	} else {
		img = cachedMkfs(a.Disk)
	}
	res := vrt.Run(vrt.Config{Horizon: hz}, func() {
		var w *World
		if prep != nil {
			w = prep.World()
		} else {
			w = NewWorld(img)
		}
		w.Model.AllowImplFail = true
		for _, op := range ops {
			if !w.Enabled(op) {
				o.status = append(o.status, 99999)
				continue
			}
			r, _, mis := w.Do(op)
			if mis != nil {
				o.errs = append(o.errs, "model|"+op.K+"|"+mis.Rule+": "+mis.Msg)
			}
			o.status = append(o.status, r.Status)
		}
		vrt.Quiesce()
		d, err := fsx.Dump(w.Srv, w.Probe)
		if err != nil {
			o.errs = append(o.errs, "dump: "+err.Error())
		}
		o.dump = fsx.DumpString(d)
		for p, n := range d {
			n.FH, n.Fileid, n.Mtime, n.Atime = "", 0, 0, 0 // server-chosen numbers and times legitimately differ
			d[p] = n
		}
		o.nohand = fsx.DumpString(d)
		o.fb, o.fi = w.FreeCounts()
		fr := w.Fsck()
		o.disk = diskSummary(fr)
		if audit {
			for _, e := range fr.Errors {
				o.errs = append(o.errs, "fsck|"+e)
			}
			for _, e := range fr.Reclaim() {
				o.errs = append(o.errs, "reclaim|"+e)
			}
			for _, e := range w.Audit(fr) {
				o.errs = append(o.errs, "audit|"+e)
			}
		}
		o.ok = true
	})
	return o, res
}

// diskSummary is what the file system records about itself on the logical disk, without times and without
// block numbers (which block an allocation gets may depend on aborted attempts): per inode in use its kind,
// link count, generation, size, pending-shrink size and number of blocks; per directory its entries with
// their slots.  A request that fails must leave it as it was - also the parts no reply shows (the link count
// decides whether the inode is ever freed).
func diskSummary(fr *fsck.Result) string {
	var inums []uint64
	for i := range fr.InUse {
		inums = append(inums, i)
	}
	sort.Slice(inums, func(a, b int) bool { return inums[a] < inums[b] })
	nblk := map[uint64]int{}
	for _, owner := range fr.Owned {
		nblk[owner]++
	}
	var b strings.Builder
	for _, i := range inums {
		ip := fr.InUse[i]
		fmt.Fprintf(&b, "inode %d kind %d nlink %d gen %d size %d shrinksize %d blocks %d\n", i, ip.Kind, ip.Nlink, ip.Gen, ip.Size, ip.ShrinkSize, nblk[i])
		if ents, ok := fr.Dirs[i]; ok {
			var names []string
			for n := range ents {
				names = append(names, n)
			}
			sort.Strings(names)
			for _, n := range names {
				fmt.Fprintf(&b, "  dir %d entry %q -> %d at %d\n", i, n, ents[n].Inum, ents[n].Off)
			}
		}
	}
	return b.String()
}

func c09Job(raw json.RawMessage) (interface{}, error) {
	var a c09Arg
	json.Unmarshal(raw, &a)
	out := &c09Res{}
	base, bres := c09Run(a, a.Path, false)
	out.Runs++
	if bres.Verdict != vrt.VOK || !base.ok {
		failmany := false
		for _, o := range a.Path {
			if o.K == "FAILMANY" {
				failmany = true
			}
		}
		if v := VerdictViolation(&bres, "C09", "state"); v != nil && (len(a.Path) == 0 || failmany) {
			// (a crash or hang while many refused requests follow each other is what they left behind)
			v.Detail = "state reached by: " + fsx.Hist(a.Path) + "\n" + v.Detail
			v.Replay = map[string]interface{}{"job": "c09", "arg": a}
			out.Viols = append(out.Viols, v)
		}
		return out, nil // the state itself is not reachable cleanly: other checks report that
	}
	class := func(c fsx.Op) string {
		cc := c
		cc.As = ""
		return cc.String()
	}
	for ci, c := range c09Candidates() {
		if a.Only != 0 && a.Only != ci+1 {
			continue
		}
		full := append(append([]fsx.Op{}, a.Path...), c)
		viol := func(sig, detail string) {
			out.Viols = append(out.Viols, &report.Violation{Property: "C09", Sig: sig + "|" + class(c), Detail: fmt.Sprintf("disk of %d blocks %s, state reached by: %s\nfailing request: %s\n%s", a.Disk, a.Prep, fsx.Hist(a.Path), c, detail),
				Replay: map[string]interface{}{"job": "c09", "arg": a}})
		}
		wc, res := c09Run(a, full, true)
		out.Runs++
		out.Transitions++
		if v := VerdictViolation(&res, "C09", class(c)); v != nil {
			viol(v.Sig, v.Detail)
			continue
		}
		st := wc.status[len(wc.status)-1]
		if st == 0 || st == 99999 {
			continue // succeeded or not enabled: not C09's business
		}
		out.Failing = append(out.Failing, class(c))
		if len(wc.errs) > 0 {
			viol("after-failed-op|"+ruleOf(wc.errs[0]), strings.Join(wc.errs, "\n"))
			continue
		}
		if wc.dump != base.dump {
			viol("failed-op-changed-tree", fmt.Sprintf("the request returned status %d, yet the dump differs from the one without it:\n%s", st, firstDiff(wc.dump, base.dump)))
			continue
		}
		if wc.disk != base.disk {
			viol("failed-op-changed-disk", fmt.Sprintf("the request returned status %d, yet the inodes / directory entries on disk differ from the run without it:\n%s", st, firstDiff(wc.disk, base.disk)))
			continue
		}
		if wc.fb != base.fb || wc.fi != base.fi {
			viol("failed-op-consumed-space", fmt.Sprintf("the request returned status %d; free blocks %d -> %d, free inodes %d -> %d", st, base.fb, wc.fb, base.fi, wc.fi))
			continue
		}
		// later behaviour: every suffix up to L
		var rec func(suf []fsx.Op, l int) bool
		rec = func(suf []fsx.Op, l int) bool {
			if len(suf) > 0 {
				x, rx := c09Run(a, append(append([]fsx.Op{}, full...), suf...), true)
				y, ry := c09Run(a, append(append([]fsx.Op{}, a.Path...), suf...), false)
				out.Runs += 2
				out.Transitions += int64(len(suf))
				if v := VerdictViolation(&rx, "C09", class(c)); v != nil {
					viol(v.Sig, "after the failed request, suffix "+fsx.Hist(suf)+"\n"+v.Detail)
					return false
				}
				if ry.Verdict == vrt.VOK && x.ok && y.ok {
					sx, sy := x.status[len(full):], y.status[len(a.Path):]
					if fmt.Sprint(sx) != fmt.Sprint(sy) || x.nohand != y.nohand || x.fb != y.fb || x.fi != y.fi || len(x.errs) > 0 {
						viol("later-behaviour-differs", fmt.Sprintf("suffix %s: statuses %v vs %v without the failed request; free %d/%d vs %d/%d; %s\n%s", fsx.Hist(suf), sx, sy, x.fb, x.fi, y.fb, y.fi, firstDiff(x.nohand, y.nohand), strings.Join(x.errs, "\n")))
						return false
					}
				}
			}
			if l == 0 {
				return true
			}
			for _, s := range c09Suffix() {
				if !rec(append(suf, s), l-1) {
					return false
				}
			}
			return true
		}
		rec(nil, a.L)
	}
	return out, nil
}

func init() {
	Checks["C09"] = C09
	par.Register("c09", c09Job)
}

func C09(r *report.Report, tier string) {
	depth, L := 2, 1
	disks := []uint64{1541, 1542, 1543, 1545, 3000}
	if tier == "thorough" {
		depth, L = 3, 2
		disks = []uint64{1541, 1542, 1543, 1544, 1545, 1546, 1550, 3000}
	}
	r.Rule = fmt.Sprintf("differential, no expected values: on disks with 1..N free data blocks and on a large one, every state reached by <=%d operations of a building alphabet (incl. filling a directory block and filling the disk), every request of a %d-element list of candidates that fail part-way (rename whose target directory cannot grow, create/mkdir/symlink without space or with refused names, writes that run out of blocks after an indirect block, oversized requests, hole-filling reads without space, dead handles, non-empty directories): if it returns an error, the full dump (incl. handles), the inodes and directory entries on the logical disk (kind, link count, generation, size, block count, slots - not times), both free counts, fsck, reclaim audit and cache audit must equal those of the run without it, and every suffix of <=%d further operations (incl. restart) must reply and end identically; the same for three states with the inode table exhausted (32765 files built through the API; suffixes there only in the thorough tier)", depth, len(c09Candidates()), L)
	var jobs []interface{}
	bl := c09Build()
	for _, d := range disks {
		var rec func(p []fsx.Op, l int)
		rec = func(p []fsx.Op, l int) {
			jobs = append(jobs, c09Arg{Disk: d, Path: append([]fsx.Op{}, p...), L: L})
			if l == 0 {
				return
			}
			for _, o := range bl {
				rec(append(p, o), l-1)
			}
		}
		rec(nil, depth)
	}
	// named, deeper states (the breadth-first part reaches only depth 2/3): a directory whose first block is full
	// (32 entries) next to a file, on full disks; a sparse file; a nearly full disk with a file that has 8 blocks
	fullDir := []fsx.Op{{K: "MKDIR", H: "root", N: "d"}, {K: "CREATEMANY", H: "root/d", N: "e", Cnt: 30}, {K: "CREATE", H: "root", N: "a"}}
	for _, d := range disks {
		for _, extra := range [][]fsx.Op{{{K: "FILL"}}, {{K: "WRITE", H: "root/a", Off: 0, Cnt: 4096, Pat: 0x11, Stable: 2}, {K: "FILL"}}, {{K: "CREATE", H: "root/d", N: "x"}, {K: "FILL"}}, {}} {
			jobs = append(jobs, c09Arg{Disk: d, Path: append(append([]fsx.Op{}, fullDir...), extra...), L: L})
		}
	}
	// 150 requests that fail after modifying something, in one server instance (every abort drops cached inodes)
	jobs = append(jobs, c09Arg{Disk: 3000, Path: []fsx.Op{{K: "MKDIR", H: "root", N: "d"}, {K: "CREATE", H: "root", N: "a"}, {K: "FAILMANY", H: "root", Cnt: 150}}, L: L},
		c09Arg{Disk: 3000, Path: []fsx.Op{{K: "MKDIR", H: "root", N: "d"}, {K: "CREATE", H: "root/d", N: "x"}, {K: "FAILMANY", H: "root/d", Cnt: 150}, {K: "CREATE", H: "root", N: "a"}}, L: L})
	// the inode table exhausted (prepared state "inofull": 32765 files): requests that need an inode fail; with one
	// number given back, the second of two; one job per candidate
	iL := 0
	if tier == "thorough" {
		iL = 1
	}
	for _, p := range [][]fsx.Op{{}, {{K: "REMOVE", H: "root/bulk", N: "f16000"}, {K: "MKDIR", H: "root", N: "nd2"}}, {{K: "REMOVE", H: "root/d", N: "x"}, {K: "SYMLINK", H: "root/bulk", N: "y", Target: "t"}, {K: "RESTART"}}} {
		for ci := range c09Candidates() {
			jobs = append(jobs, c09Arg{Disk: 4000, Prep: "inofull", Path: p, L: iL, Only: ci + 1})
		}
	}
	failing := map[string]int{}
	par.Map("c09", jobs, par.Options{Deadline: Deadline}, func(i int, res *par.Result) {
		if res.Skipped {
			r.Exhaustive = false
			r.Add("jobs_not_run_time_budget", 1)
			return
		}
		if res.Crashed || res.Err != "" {
			r.Violate(report.Violation{Sig: "worker-died", Detail: res.Err + tail(res.Stderr, 2000), Replay: map[string]interface{}{"job": "c09", "arg": jobs[i]}})
			return
		}
		var x c09Res
		json.Unmarshal(res.Out, &x)
		r.Add("transitions", x.Transitions)
		r.Add("traces_validated_against_impl", x.Runs)
		r.Add("states", 1)
		for _, f := range x.Failing {
			failing[f]++
			a := jobs[i].(c09Arg)
			r.Distinct(fmt.Sprintf("%d%s|%s|%s", a.Disk, a.Prep, fsx.Hist(a.Path), f))
		}
		for _, v := range x.Viols {
			r.Violate(*v)
		}
		if i%97 == 0 && len(x.Failing) > 0 {
			a := jobs[i].(c09Arg)
			r.Sample(map[string]interface{}{"disk": a.Disk, "state": fsx.Hist(a.Path), "failing_candidates": x.Failing})
		}
	})
	r.Extra["failing_candidate_counts"] = failing
	r.Extra["bounds"] = map[string]int{"depth": depth, "suffix": L}
}

var _ = reffs.REG
