package checks

import (
	"encoding/json"
	"fmt"
	"strings"

	"github.com/mit-pdos/go-journal/vrt"
	"verif/fsck"
	"verif/fsx"
	"verif/par"
	"verif/report"
	"verif/vdisk"
)

// ---- C15: every supported disk size yields a consistent, fully usable file system ----

type c15Arg struct {
	Size uint64 `json:"size"`
	Fill bool   `json:"fill"`
	Inos bool   `json:"inos,omitempty"` // also use up the inode table
}

type c15Res struct {
	Accepted bool                `json:"accepted"`
	Filled   bool                `json:"filled"`
	Blocks   uint64              `json:"blocks"`
	Inodes   uint64              `json:"inodes,omitempty"` // objects created when the inode table was used up
	Viols    []*report.Violation `json:"viols"`
	Steps    int64               `json:"steps"`
}

func c15Job(raw json.RawMessage) (interface{}, error) {
	var a c15Arg
	json.Unmarshal(raw, &a)
	out := &c15Res{}
	viol := func(sig, detail string) {
		out.Viols = append(out.Viols, &report.Violation{Property: "C15", Sig: sig, Detail: fmt.Sprintf("disk of %d blocks: %s", a.Size, detail),
			Replay: map[string]interface{}{"job": "c15", "arg": a}})
	}
	var w *World
	res := vrt.Run(vrt.Config{Horizon: 500_000_000}, func() {
		w = NewWorld(vdisk.NewImage(a.Size))
		w.Disk.Record = false
		vrt.Quiesce()
	})
	if res.Verdict == vrt.VPanic {
		if strings.Contains(res.Msg, "configuration makes no sense") {
			return out, nil // size not accepted (MakeNfs refuses it loudly)
		}
		viol("format-crashed|"+firstLine(res.Msg), "formatting panics: "+res.Msg+"\n"+res.Stack)
		return out, nil
	}
	if v := VerdictViolation(&res, "C15", "format"); v != nil {
		viol(v.Sig, v.Detail)
		return out, nil
	}
	out.Accepted = true
	res = vrt.Run(vrt.Config{Horizon: 2_000_000_000, KeepClock: true}, func() {
		w = NewWorld(vdisk.NewImage(a.Size))
		w.Disk.Record = false
		w.Model.AllowImplFail = true
		vrt.Quiesce()
		// layout arithmetic of the implementation vs the independent one
		sup := w.Srv.VerifFsState().Super
		L := fsck.LayoutFor(a.Size)
		regs := []struct {
			name   string
			lo, hi uint64
		}{
			{"log", 0, uint64(sup.BitmapBlockStart())},
			{"block bitmap", uint64(sup.BitmapBlockStart()), uint64(sup.BitmapInodeStart())},
			{"inode bitmap", uint64(sup.BitmapInodeStart()), uint64(sup.InodeStart())},
			{"inode table", uint64(sup.InodeStart()), uint64(sup.DataStart())},
			{"data", uint64(sup.DataStart()), uint64(sup.MaxBnum())},
		}
		for i, rg := range regs {
			if rg.lo >= rg.hi || rg.hi > a.Size || (i > 0 && rg.lo != regs[i-1].hi) {
				viol("layout|"+rg.name, fmt.Sprintf("region %s = [%d,%d) is empty, outside the disk or not adjacent to its predecessor", rg.name, rg.lo, rg.hi))
				return
			}
		}
		if uint64(sup.DataStart()) != L.DataStart || uint64(sup.BitmapBlockStart()) != L.BlockBitmap || uint64(sup.BitmapInodeStart()) != L.InodeBitmap || uint64(sup.InodeStart()) != L.InodeStart {
			viol("layout|arithmetic", fmt.Sprintf("implementation layout %+v differs from the independent computation %+v", regs, L))
			return
		}
		if sup.NBlockBitmap*32768 < a.Size {
			viol("layout|bitmap-too-small", fmt.Sprintf("%d bitmap blocks cover %d blocks", sup.NBlockBitmap, sup.NBlockBitmap*32768))
			return
		}
		// fresh image: bitmaps mark exactly the non-data blocks (+ the root directory's block) and inodes 0,1
		fr := w.Fsck()
		for _, e := range fr.Errors {
			viol("fresh|"+ruleOf(e), e)
		}
		if len(fr.BlockBits) != len(fr.Owned) {
			viol("fresh|bitmap-data-bits", fmt.Sprintf("%d data blocks marked in use, %d owned (root directory)", len(fr.BlockBits), len(fr.Owned)))
		}
		if len(fr.InodeBits) != 2 {
			viol("fresh|inode-bits", fmt.Sprintf("%d inode bits set, expected exactly 0 and 1", len(fr.InodeBits)))
		}
		for _, e := range w.Audit(fr) {
			viol("fresh|"+ruleOf(e), e)
		}
		if len(out.Viols) > 0 || !a.Fill {
			return
		}
		// fill the disk completely through normal operations
		freeB, _ := w.FreeCounts()
		want := a.Size - L.DataStart - uint64(len(fr.Owned))
		if freeB != want {
			viol("fill|free-count", fmt.Sprintf("allocator reports %d free blocks, the data region has %d unused", freeB, want))
			return
		}
		nfile := 0
		for guard := 0; guard < 100000; guard++ {
			nfile++
			fn := fmt.Sprintf("fill%d", nfile)
			r, _, _ := w.Do(fsx.Op{K: "CREATE", H: "root", N: fn})
			if !r.OK() {
				break
			}
			wrote := uint64(0)
			for off := uint64(0); off < maxFile-512*4096; {
				n := uint64(64 * 4096)
				rr, _, mis := w.Do(fsx.Op{K: "WRITE", H: "root/" + fn, Off: off, Cnt: n, Pat: byte(nfile), Stable: 0})
				if mis != nil {
					viol("fill|write|"+mis.Rule, mis.Msg)
					return
				}
				if !rr.OK() || uint64(rr.Count) < n {
					if rr.OK() {
						off += uint64(rr.Count)
						wrote += uint64(rr.Count)
					}
					// a write that ran out of space part-way (an index block may have been taken and given back in the
					// same transaction): allocator and bitmap must agree right now, not only once the disk is full
					vrt.Quiesce()
					for _, e := range w.Audit(w.Fsck()) {
						if rl := ruleOf(e); rl == "balloc-differs-from-disk" || rl == "ialloc-differs-from-disk" {
							viol("fill|short-write|"+rl, fmt.Sprintf("after %s returned status %d count %d: %s", fsx.Op{K: "WRITE", H: "root/" + fn, Off: off - uint64(rr.Count), Cnt: n}, rr.Status, rr.Count, e))
							return
						}
					}
					// single blocks to use the very last ones this file can still take
					for k := 0; k < 70; k++ {
						r1, _, _ := w.Do(fsx.Op{K: "WRITE", H: "root/" + fn, Off: off, Cnt: 4096, Pat: byte(nfile), Stable: 0})
						if !r1.OK() || r1.Count == 0 {
							break
						}
						off += uint64(r1.Count)
						wrote += uint64(r1.Count)
					}
					break
				}
				off += uint64(rr.Count)
				wrote += uint64(rr.Count)
			}
			if wrote == 0 {
				break // a fresh file could not take a single block: the disk is full
			}
		}
		w.Flush()
		vrt.Quiesce()
		out.Steps = int64(w.NOps)
		fb, _ := w.FreeCounts()
		fr2 := w.Fsck()
		for _, e := range fr2.Errors {
			viol("fill|"+ruleOf(e), e)
		}
		for _, e := range w.Audit(fr2) {
			viol("fill|"+ruleOf(e), e)
		}
		out.Blocks = uint64(len(fr2.Owned))
		if fb != 0 {
			viol("fill|blocks-unusable", fmt.Sprintf("WRITE reports no space but the allocator still has %d free blocks (owned %d of %d data blocks)", fb, len(fr2.Owned), a.Size-L.DataStart))
		}
		if uint64(len(fr2.Owned)) != a.Size-L.DataStart && fb == 0 {
			viol("fill|count", fmt.Sprintf("after filling, %d blocks are owned by files/directories; the data region has %d", len(fr2.Owned), a.Size-L.DataStart))
		}
		for b := range fr2.Owned {
			if b < L.DataStart || b >= a.Size {
				viol("fill|outside", fmt.Sprintf("block %d outside the data region was handed out", b))
			}
		}
		// free everything: space returns
		if m := w.DeleteAll(); m != nil {
			viol("free|"+m.Rule, m.Msg)
			return
		}
		vrt.Quiesce()
		fb2, fi2 := w.FreeCounts()
		if fb2 != w.FreshB || fi2 != w.FreshI {
			viol("free|not-restored", fmt.Sprintf("after deleting everything %d blocks / %d inodes free, fresh values %d / %d", fb2, fi2, w.FreshB, w.FreshI))
		}
		fr3 := w.Fsck()
		for _, e := range append(fr3.Errors, fr3.Reclaim()...) {
			viol("free|"+ruleOf(e), e)
		}
		out.Filled = true
		if !a.Inos {
			return
		}
		// the inode table: every number but the two reserved ones can be handed out - no more, and none outside the table
		w.Do(fsx.Op{K: "MKDIR", H: "root", N: "bulk"})
		n := uint64(1)
		var last fsx.Reply
		for ; n < 40000; n++ {
			last, _, _ = w.Do(fsx.Op{K: "CREATE", H: "root/bulk", N: fmt.Sprintf("i%05d", n), As: "_"})
			if !last.OK() {
				break
			}
			if last.Attr != nil && (last.Attr.Fileid < 2 || last.Attr.Fileid >= L.NInode) {
				viol("inodes|outside", fmt.Sprintf("CREATE number %d got inode %d, the table has %d", n, last.Attr.Fileid, L.NInode))
				return
			}
		}
		if n != L.NInode-2 || last.Status != 28 {
			viol("inodes|count", fmt.Sprintf("%d objects could be created (last status %d); the inode table has %d numbers, two of them reserved", n, last.Status, L.NInode))
			return
		}
		out.Inodes = n
		vrt.Quiesce()
		fr4 := w.Fsck()
		for _, e := range fr4.Errors {
			viol("inodes|"+ruleOf(e), e)
		}
		for _, e := range w.Audit(fr4) {
			viol("inodes|"+ruleOf(e), e)
		}
		if m := w.DeleteAll(); m != nil {
			viol("inodes|free|"+m.Rule, m.Msg)
			return
		}
		vrt.Quiesce()
		if fb3, fi3 := w.FreeCounts(); fb3 != w.FreshB || fi3 != w.FreshI {
			viol("inodes|free|not-restored", fmt.Sprintf("after deleting everything %d blocks / %d inodes free, fresh values %d / %d", fb3, fi3, w.FreshB, w.FreshI))
		}
	})
	if v := VerdictViolation(&res, "C15", "use"); v != nil {
		viol(v.Sig, v.Detail)
	}
	return out, nil
}

func init() {
	Checks["C15"] = C15
	par.Register("c15", c15Job)
}

func C15(r *report.Report, tier string) {
	var jobs []interface{}
	add := func(sz uint64, fill bool) { jobs = append(jobs, c15Arg{Size: sz, Fill: fill || tier == "thorough"}) }
	for sz := uint64(1530); sz <= 1700; sz++ {
		add(sz, true)
	}
	for k := uint64(1); k <= 3; k++ {
		for d := int64(-40); d <= 40; d++ {
			add(uint64(int64(k*32768)+d), d >= -2 && d <= 2)
		}
	}
	for k := uint64(4); k <= 8; k++ { // more bitmap blocks: DataStart moves by one block per 32768
		for d := int64(-3); d <= 3; d++ {
			add(uint64(int64(k*32768)+d), false)
		}
	}
	add(10000, true)
	add(102400, true)
	// the inode table used up as well (32766 objects): the smallest size that can hold them, and around the second bitmap block
	for _, sz := range []uint64{4000, 32767, 32768, 32770, 65537} {
		if tier == "thorough" || sz != 65537 {
			jobs = append(jobs, c15Arg{Size: sz, Fill: true, Inos: true})
		}
	}
	r.Rule = "every disk size in [1530,1700] (the smallest accepted size is found, not assumed: a panic in MakeNfs = not accepted) and in [k*32768-40, k*32768+40] for k=1..3, [k*32768-3, k*32768+3] for k=4..8, plus 10000 and 102400 (a panic while formatting other than the documented refusal is a violation): regions log | block bitmap | inode bitmap | inode table | data adjacent, non-empty, inside the disk and equal to an independent computation; fresh image: fsck clean, data-region bitmap bits == blocks of the root directory, inode bits == {0,1}, allocators == bitmaps; fill (every size below 1700, +-2 around each bitmap-block boundary, the two large sizes; thorough: every size): WRITE until no space, then the allocator has 0 free blocks, fsck is clean, every data block - no block less, none outside - is owned; delete everything: free counts return to the fresh values; for the sizes 4000, 32767, 32768, 32770 (thorough: 65537) objects are then created until the server refuses: exactly the table's numbers minus the two reserved ones, none outside, fsck and allocator audit, everything deleted again. distinct_nontrivial = accepted sizes"
	accepted, minAcc := 0, uint64(0)
	par.Map("c15", jobs, par.Options{Deadline: Deadline}, func(i int, res *par.Result) {
		if res.Skipped {
			r.Exhaustive = false
			r.Add("jobs_not_run_time_budget", 1)
			return
		}
		a := jobs[i].(c15Arg)
		if res.Crashed || res.Err != "" {
			r.Violate(report.Violation{Sig: "worker-died", Detail: fmt.Sprintf("size %d: %s %s", a.Size, res.Err, tail(res.Stderr, 2000)), Replay: map[string]interface{}{"job": "c15", "arg": a}})
			return
		}
		var x c15Res
		json.Unmarshal(res.Out, &x)
		r.Add("transitions", 1+x.Steps)
		r.Add("traces_validated_against_impl", 1)
		r.Add("states", 1)
		if x.Accepted {
			accepted++
			r.Distinct(fmt.Sprint(a.Size))
			if minAcc == 0 || a.Size < minAcc {
				minAcc = a.Size
			}
		}
		if x.Filled {
			r.Add("filled", 1)
		}
		for _, v := range x.Viols {
			r.Violate(*v)
		}
		if i%60 == 0 {
			r.Sample(map[string]interface{}{"size": a.Size, "accepted": x.Accepted, "filled": x.Filled, "owned_blocks_when_full": x.Blocks})
		}
	})
	r.Extra["smallest_accepted_size"] = minAcc
	r.Extra["accepted_sizes"] = accepted
}
