package checks

import (
	"fmt"
	"time"

	"github.com/mit-pdos/go-journal/vrt"
	"verif/fsx"
	"verif/reffs"
	"verif/report"
)

// ---- C04: the disk always holds a well-formed file system ----

func c04Alphabet() []fsx.Op {
	al := nsAlphabet()
	al = append(al,
		fsx.Op{K: "MKDIR", H: "root/d", N: "sub"},
		fsx.Op{K: "RENAME", H: "root/d", N: "sub", H2: "root", N2: "sub"},    // directory to another parent
		fsx.Op{K: "RENAME", H: "root", N: "b", H2: "root", N2: "d"},          // directory over (empty?) directory
		fsx.Op{K: "RENAME", H: "root", N: "d", H2: "root/d", N2: "self"},     // directory into itself
		fsx.Op{K: "RENAME", H: "root", N: "d", H2: "root/d/sub", N2: "deep"}, // directory into its own subtree
		fsx.Op{K: "SETATTR", H: "root/d", Size: 64},                          // size change on a directory
		fsx.Op{K: "REMOVE", H: "root", N: "b"},                               // REMOVE applied to a directory
		fsx.Op{K: "CREATE", H: "root", N: "big"},
		fsx.Op{K: "WRITE", H: "root/big", Off: 600 * 4096, Cnt: 1, Pat: 0x51, Stable: 2},
		fsx.Op{K: "SETATTR", H: "root/big", Size: 5},
		fsx.Op{K: "REMOVE", H: "root", N: "big"},
		// directories of more than one block whose only survivor sits in a particular slot
		fsx.Op{K: "CREATEMANY", H: "root/d", N: "m", Cnt: 40},
		fsx.Op{K: "KEEPONLY", H: "root/d", N: "m030"}, // slot 32: first slot of the second block
		fsx.Op{K: "KEEPONLY", H: "root/d", N: "m031"},
		fsx.Op{K: "KEEPONLY", H: "root/d", N: "m005"},
		fsx.Op{K: "KEEPONLY", H: "root/d", N: "m039"},
		// refused after the source name was taken out (the target "directory" is a symbolic link): whatever the request
		// changed in memory must be gone too, or the next CREATE of that name writes a second entry
		fsx.Op{K: "RENAME", H: "root", N: "a", H2: "root/s", N2: "x"},
	)
	return al
}

func c04After(w *World, path []fsx.Op, r fsx.Reply, implFail bool, mis *reffs.Mismatch, viol func(sig, detail string)) {
	// semantics are C02's business; here: structure at the quiescent point
	vrt.Quiesce()
	fr := w.Fsck()
	for _, e := range fr.Errors {
		viol("quiescent|"+ruleOf(e), e)
	}
}

func init() {
	Checks["C04"] = C04
	// writes and truncations at every block / indirection boundary (the C02 offset alphabet), fsck as the oracle
	RegisterSeq("c04.off", &SeqSpec{Prop: "C04", DiskSize: 6000, Setup: []fsx.Op{{K: "CREATE", H: "root", N: "f"}}, Alphabet: offAlphabet(), After: c04After,
		Key: func(w *World) string { w.Probe = offProbe(); return w.defaultKey() }})
	// a directory of 40 names of the maximal length (five blocks), whose name cache is rebuilt after restarts, evictions and aborts
	pad := func(n string) string {
		for len(n) < 112 {
			n += "_"
		}
		return n
	}
	RegisterSeq("c04.longnames", &SeqSpec{Prop: "C04", DiskSize: 3000, After: c04After,
		Setup: []fsx.Op{{K: "MKDIR", H: "root", N: "d"}, {K: "CREATEMANY", H: "root/d", N: "L", Cnt: 40, Len: 112}},
		Alphabet: []fsx.Op{{K: "RESTART"}, {K: "CREATE", H: "root/d", N: pad("L039")}, {K: "CREATE", H: "root/d", N: pad("L000")}, {K: "MKDIR", H: "root/d", N: pad("L020")},
			{K: "REMOVE", H: "root/d", N: pad("L039")}, {K: "REMOVE", H: "root/d", N: pad("L017")}, {K: "RENAME", H: "root/d", N: pad("L001"), H2: "root/d", N2: pad("L038")},
			{K: "CREATE", H: "root/d", N: pad("new")}, {K: "CREATE", H: "root/d", N: nameOfLen(200, 'q')}, {K: "REMOVETHIRD", H: "root/d"}}})
	// nested directories: the parents' link counts are in no reply; a wrong one shows when the parent itself is removed
	// (its inode stays in use without a name) - possibly only after the cached inode was dropped by a restart
	RegisterSeq("c04.dirs", &SeqSpec{Prop: "C04", DiskSize: 3000, After: c04After,
		Setup: []fsx.Op{{K: "MKDIR", H: "root", N: "d"}, {K: "MKDIR", H: "root/d", N: "sub"}, {K: "MKDIR", H: "root", N: "e"}},
		Alphabet: []fsx.Op{{K: "RESTART"}, {K: "RMDIR", H: "root/d", N: "sub"}, {K: "REMOVE", H: "root/d", N: "sub"}, {K: "RMDIR", H: "root/d", N: "sub2"},
			{K: "RMDIR", H: "root", N: "d"}, {K: "REMOVE", H: "root", N: "d"}, {K: "RMDIR", H: "root", N: "e"}, {K: "MKDIR", H: "root/d", N: "sub2"}, {K: "MKDIR", H: "root/e", N: "g"},
			{K: "RENAME", H: "root/d", N: "sub", H2: "root/d", N2: "sub2"}, {K: "RENAME", H: "root", N: "e", H2: "root", N2: "d"}, {K: "MKDIR", H: "root/d", N: nameOfLen(200, 'q')}, {K: "CREATE", H: "root/d", N: "f"}, {K: "REMOVE", H: "root/d", N: "f"}}})
	RegisterSeq("c04.seq", &SeqSpec{Prop: "C04", DiskSize: 3000, Alphabet: c04Alphabet(), After: c04After,
		Key: func(w *World) string { w.Probe = crashProbe; return w.defaultKey() }})
}

func C04(r *report.Report, tier string) {
	offDepth := 2
	if tier == "thorough" {
		offDepth = 3
	}
	depth, cdepth, bound, cap := 4, 2, 1, 64
	if tier == "thorough" {
		depth, cdepth, bound, cap = 5, 3, 2, 1024
	}
	r.Only = map[string]bool{"C04": true}
	r.Rule = fmt.Sprintf("independent fsck (pointers in the data region, no block with two owners, owned => marked, inode bitmap <=> kind, tree rooted at the root with every in-use inode reached exactly once, unique well-formed names, . and .. right, no block beyond size/ShrinkSize) on the log-aware logical disk (i) in every state of a breadth-first search to depth %d over a %d-symbol alphabet incl. directory renames between parents, rename into itself, REMOVE/SETATTR on directories, big-file frees and multi-block directories reduced to one survivor in a chosen slot, of a second search over writes/truncations at every block and indirection boundary up to the maximum file size, and of a third from a directory of 40 names of the maximal length (restarts, creations of existing names, removals, renames), and of a fourth from nested directories (removals with RMDIR and REMOVE, renames of directories over directories, restarts in between), (ii) in the final state of every schedule (<=%d deviations) of the C03 harnesses, (iii) on the logical disk (home blocks + recovered log, decoded independently) of every crash image of all depth-<=%d crash histories incl. images cut while a 600-block file is being freed in the background", depth, len(c04Alphabet()), bound, cdepth)
	s1 := RunSeq(r, "c04.seq", depth)
	s2 := RunSeq(r, "c04.off", offDepth)
	s3 := RunSeq(r, "c04.longnames", depth-1)
	s4 := RunSeq(r, "c04.dirs", depth)
	r.Extra["searches"] = []*SeqSummary{s1, s2, s3, s4}
	var jobs []crashArg
	// images cut between the background transactions that free a 530-block file
	maxImg := 200
	if tier == "thorough" {
		maxImg = 0
	}
	for _, h := range [][]fsx.Op{{{K: "REMOVE", H: "root", N: "big"}}, {{K: "SETATTR", H: "root/big", Size: 0}}} {
		jobs = append(jobs, crashArg{Prop: "C04", DiskSize: 3000, Setup: big530Setup, Ops: h, Cap: 64, MaxImages: maxImg, FsckOnly: true, Probe: &fsx.Probe{Full: 4 << 20}})
	}
	for _, h := range crashHistories(crashAlphabet(), cdepth) {
		jobs = append(jobs, crashArg{Prop: "C04", DiskSize: 3000, Setup: crashSetup, Ops: h, Cap: cap, Probe: crashProbe, FsckOnly: true})
	}
	runCrashJobs(r, jobs, map[string]bool{"C04": true})
	chs := concHarnesses()
	for hi, h := range chs {
		fairShare(hi, len(chs))
		if timeUp() {
			r.Exhaustive = false
			break
		}
		h.Prefer = "C04"
		s := ExploreAll(r, "nfs.conc", h, bound, vrt.PUnlock, false)
		r.Sample(map[string]interface{}{"harness": h.Name, "executions": s.Execs})
	}
	HarnessDeadline = time.Time{}
	r.Extra["bounds"] = map[string]int{"depth": depth, "crash_depth": cdepth, "deviations": bound, "loss_product_cap": cap}
}
