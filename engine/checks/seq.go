package checks

import (
	"crypto/sha256"
	"encoding/hex"
	"encoding/json"
	"fmt"
	"os"
	"sort"
	"strings"
	"sync"

	"github.com/mit-pdos/go-journal/vrt"
	"github.com/mit-pdos/go-nfsd/fstxn"
	"github.com/mit-pdos/go-nfsd/inode"
	"verif/fsx"
	"verif/par"
	"verif/reffs"
	"verif/report"
	"verif/vdisk"
)

// ---- engine E3: explicit-state search over operation sequences ----

// SeqSpec describes one search: initial image, set-up, alphabet and oracle.
type SeqSpec struct {
	Prop          string
	DiskSize      uint64
	Image         func() *vdisk.Image // default: mkfs of DiskSize
	Setup         []fsx.Op            // executed (and model-checked) before the searched sequence
	Alphabet      []fsx.Op
	Unstable      bool
	NoUnstable    bool // run the server with Unstable=false
	Strict        bool // dead handles must answer STALE/BADHANDLE
	AllowImplFail bool
	// After is the per-transition oracle; it runs after the last operation of
	// the path (whose reply and model verdict it gets) inside the execution.
	After func(w *World, path []fsx.Op, r fsx.Reply, implFail bool, mis *reffs.Mismatch, viol func(sig, detail string))
	// Key overrides the canonical state key (default: model + disk + allocator cursors)
	Key      func(w *World) string
	ICacheSz uint64
	ViaXDR   bool
	Prep     string // start from this prepared state (see Prepared) instead of a fresh file system + Setup
}

var seqSpecs = map[string]*SeqSpec{}

func RegisterSeq(name string, s *SeqSpec) { seqSpecs[name] = s }

var imgCache sync.Map

func cachedMkfs(size uint64) *vdisk.Image {
	if v, ok := imgCache.Load(size); ok {
		return v.(*vdisk.Image)
	}
	img := MkfsImage(size)
	imgCache.Store(size, img)
	return img
}

type seqArg struct {
	Spec string   `json:"spec"`
	Path []fsx.Op `json:"path"`
	Only int      `json:"only"` // -1: every alphabet symbol; else just this one (replay)
}

type seqSucc struct {
	Op       int                 `json:"op"`
	Disabled bool                `json:"disabled,omitempty"`
	Key      string              `json:"key,omitempty"`
	Viols    []*report.Violation `json:"viols,omitempty"`
	Steps    int                 `json:"steps,omitempty"`
}

type seqRes struct {
	Succ []seqSucc `json:"succ"`
}

// classOf replaces handle variables by the kind of object they denote, for stable signatures.
func (w *World) classOf(ref string) string {
	if ref == "" {
		return ""
	}
	if strings.HasPrefix(ref, "dead:") {
		return "dead"
	}
	h, ok := w.Vars.Resolve(ref)
	if !ok {
		return "unbound"
	}
	id, live := w.Model.ByFH[hex.EncodeToString(h)]
	if !live {
		if strings.HasPrefix(ref, "raw:") {
			return fmt.Sprintf("raw%d", len(h))
		}
		return "dead"
	}
	if id == w.Model.Root {
		return "root"
	}
	switch w.Model.Objs[id].Kind {
	case reffs.DIR:
		return "dir"
	case reffs.REG:
		return "file"
	default:
		return "symlink"
	}
}

func (w *World) OpClass(o fsx.Op) string {
	c := o
	c.H, c.H2 = w.classOf(o.H), w.classOf(o.H2)
	c.As = ""
	return c.String()
}

// defaultKey: everything of the server state that can influence a future reply.
func (w *World) defaultKey() string {
	h := sha256.New()
	// model incl. handle binding
	md := w.Model.Dump(w.Probe)
	var ps []string
	for p := range md {
		ps = append(ps, p)
	}
	sort.Strings(ps)
	for _, p := range ps {
		n := md[p]
		fmt.Fprintf(h, "%s|%d|%d|%s|%d|%s|%s|%d|%d;", p, n.Kind, n.Size, n.FH, n.Fileid, n.Data, n.Target, n.Mtime, n.Atime)
	}
	var dead []string
	for fh := range w.Model.Seen {
		if _, live := w.Model.ByFH[fh]; !live {
			dead = append(dead, fh)
		}
	}
	sort.Strings(dead)
	fmt.Fprintf(h, "dead:%v;", dead)
	var vs []string
	for v, x := range w.Vars.Live {
		vs = append(vs, v+"="+hex.EncodeToString(x))
	}
	sort.Strings(vs)
	fmt.Fprintf(h, "vars:%v;", vs)
	// background work still outstanding when the last request returned (the continuation of the search does not
	// wait for it): the number of live shrinker threads
	fmt.Fprintf(h, "shrinkers:%d;", w.Srv.VerifShrinker().VerifNThread())
	// disk (home region) after everything has been installed
	if w.Pending {
		w.Flush()
	}
	vrt.Quiesce()
	snap := w.Disk.Snapshot()
	for _, a := range snap.Addrs() {
		if a < 513 {
			continue
		}
		b := snap.Get(a)
		allz := true
		for _, x := range b {
			if x != 0 {
				allz = false
				break
			}
		}
		if !allz {
			fmt.Fprintf(h, "%d:", a)
			h.Write(b)
		}
	}
	st := w.Srv.VerifFsState()
	fmt.Fprintf(h, "next:%d,%d;", st.Balloc.VerifNext(), st.Ialloc.VerifNext())
	// the inode cache with its contents (a cached inode or name cache that differs from the disk is state)
	var ids []string
	st.Icache.VerifEach(func(id uint64, obj interface{}) {
		if obj == nil {
			ids = append(ids, fmt.Sprintf("%d:-", id))
			return
		}
		ip := obj.(*inode.Inode)
		e := fmt.Sprintf("%d:%d/%d/%d/%d/%d/%v/%v/%v", id, ip.Kind, ip.Nlink, ip.Gen, ip.Size, ip.ShrinkSize, ip.Atime, ip.Mtime, ip.VerifBlks())
		if ip.Dcache != nil {
			ents := ip.Dcache.VerifEntries()
			var ns []string
			for n, d := range ents {
				ns = append(ns, fmt.Sprintf("%s>%d@%d", n, d.Inum, d.Off))
			}
			sort.Strings(ns)
			e += fmt.Sprintf("/dc%d:%v", ip.Dcache.Lastoff, ns)
		}
		ids = append(ids, e)
	})
	sort.Strings(ids)
	fmt.Fprintf(h, "icache:%v", ids)
	return hex.EncodeToString(h.Sum(nil)[:16])
}

func seqExpand(raw json.RawMessage) (interface{}, error) {
	var a seqArg
	if err := json.Unmarshal(raw, &a); err != nil {
		return nil, err
	}
	spec := seqSpecs[a.Spec]
	if spec == nil {
		return nil, fmt.Errorf("unknown search %s", a.Spec)
	}
	var img *vdisk.Image
	if spec.Image != nil {
		img = spec.Image()
	} else if spec.Prep != "" {
		img = nil // (the prepared state carries its own image)
	} else {
		img = cachedMkfs(spec.DiskSize)
	}
	out := &seqRes{}
	for oi, op := range spec.Alphabet {
		if a.Only >= 0 && oi != a.Only {
			continue
		}
		succ := seqSucc{Op: oi}
		full := append(append([]fsx.Op{}, a.Path...), op)
		viol := func(sig, detail string) {
			succ.Viols = append(succ.Viols, &report.Violation{Property: spec.Prop, Sig: sig,
				Detail: "history: " + fsx.Hist(full) + "\n" + detail,
				Replay: map[string]interface{}{"job": "seq.expand", "arg": seqArg{Spec: a.Spec, Path: a.Path, Only: oi}}})
		}
		var lastClass string
		savedIC := fstxn.ICACHESZ
		if spec.ICacheSz != 0 {
			fstxn.ICACHESZ = spec.ICacheSz
		}
		var prep *Prepared
		if spec.Prep != "" {
			prep = prepared(spec.Prep)
		}
		hz := 3_000_000
		if prep != nil {
			hz = 100_000_000
		}
		res := vrt.Run(vrt.Config{Horizon: hz}, func() {
			var w *World
			if prep != nil {
				w = prep.World()
			} else {
				w = NewWorld(img)
			}
			w.Model.StrictStale = spec.Strict
			w.Model.AllowImplFail = spec.AllowImplFail
			w.ViaXDR = spec.ViaXDR
			if spec.NoUnstable {
				w.Unstable = false
				w.Srv.Unstable = false
			}
			for _, o := range spec.Setup {
				if _, _, mis := w.Do(o); mis != nil {
					panic(fmt.Sprintf("set-up operation %s: %v", o, mis))
				}
			}
			for _, o := range a.Path {
				w.Do(o)
			}
			if !w.Enabled(op) {
				succ.Disabled = true
				return
			}
			lastClass = w.OpClass(op)
			// one request takes a few thousand scheduling points; a request (each single one of a macro-operation)
			// that needs more than 400000 is a retry loop that never ends
			w.ReqHorizon = 400_000
			r, implFail, mis := w.Do(op)
			w.ReqHorizon = 0
			vrt.SetHorizon(vrt.Steps() + 100_000_000)
			// the state key is taken before the oracle runs (oracles may restart or probe the server)
			key := ""
			if mis == nil || spec.After != nil {
				if spec.Key != nil {
					key = spec.Key(w)
				} else {
					key = w.defaultKey()
				}
			}
			if spec.After != nil {
				spec.After(w, full, r, implFail, mis, func(sig, detail string) { viol(sig+"|"+lastClass, detail) })
			} else if mis != nil {
				viol(mis.Rule+"|"+lastClass, mis.Msg)
			}
			if len(succ.Viols) == 0 {
				succ.Key = key
			}
		})
		fstxn.ICACHESZ = savedIC
		succ.Steps = res.Steps
		if v := VerdictViolation(&res, spec.Prop, lastClass); v != nil {
			viol(v.Sig, v.Detail)
		}
		out.Succ = append(out.Succ, succ)
	}
	return out, nil
}

func init() {
	par.Register("seq.expand", seqExpand)
}

type SeqSummary struct {
	Spec        string `json:"search"`
	Depth       int    `json:"depth"`
	States      int    `json:"states"`
	Transitions int64  `json:"transitions"`
	Disabled    int64  `json:"disabled_transitions"`
	Pruned      int64  `json:"transitions_into_known_states"`
	Complete    bool   `json:"complete"`
	PerLevel    []int  `json:"new_states_per_level"`
}

// RunSeq does the breadth-first search to the given depth.
func RunSeq(r *report.Report, name string, depth int) *SeqSummary {
	spec := seqSpecs[name]
	sum := &SeqSummary{Spec: name, Depth: depth, Complete: true}
	if only := os.Getenv("VERIF_SEQ"); only != "" && only != name {
		// development aid: run a single search of a check (the run then does not count as exhaustive)
		r.Exhaustive = false
		r.Note("search %s not run (VERIF_SEQ filter)", name)
		sum.Complete = false
		return sum
	}
	seen := map[string]bool{}
	frontier := [][]fsx.Op{{}}
	sum.States = 1
	for level := 1; level <= depth && len(frontier) > 0; level++ {
		var jobs []interface{}
		for _, p := range frontier {
			jobs = append(jobs, seqArg{Spec: name, Path: p, Only: -1})
		}
		var next [][]fsx.Op
		results := par.Map("seq.expand", jobs, par.Options{Deadline: Deadline}, nil)
		newStates := 0
		for i, res := range results {
			path := frontier[i]
			if res.Skipped {
				if sum.Complete {
					r.Note("search %s: level %d not completed (time budget)", name, level)
				}
				sum.Complete = false
				r.Exhaustive = false
				continue
			}
			if res.Crashed || res.Err != "" {
				r.Violate(report.Violation{Property: spec.Prop, Sig: "worker-died|" + name, Detail: "history prefix: " + fsx.Hist(path) + "\n" + res.Err + tail(res.Stderr, 3000),
					Replay: map[string]interface{}{"job": "seq.expand", "arg": jobs[i]}})
				continue
			}
			var x seqRes
			json.Unmarshal(res.Out, &x)
			for _, s := range x.Succ {
				if s.Disabled {
					sum.Disabled++
					continue
				}
				sum.Transitions++
				for _, v := range s.Viols {
					r.Violate(*v)
				}
				if len(s.Viols) > 0 || s.Key == "" {
					continue // not expanded further; siblings are
				}
				if seen[s.Key] {
					sum.Pruned++
					continue
				}
				seen[s.Key] = true
				newStates++
				np := append(append([]fsx.Op{}, path...), spec.Alphabet[s.Op])
				next = append(next, np)
				if newStates%211 == 1 {
					r.Sample(map[string]interface{}{"search": name, "history": fsx.Hist(np)})
				}
			}
		}
		sum.PerLevel = append(sum.PerLevel, newStates)
		sum.States += newStates
		frontier = next
		if timeUp() && level < depth {
			sum.Complete = false
			r.Exhaustive = false
			r.Note("search %s stopped after level %d of %d (time budget)", name, level, depth)
			break
		}
	}
	r.Add("states", int64(sum.States))
	r.Add("transitions", sum.Transitions)
	r.Add("traces_validated_against_impl", sum.Transitions)
	for k := range seen {
		r.Distinct(name + ":" + k)
	}
	return sum
}
