package checks

import (
	"fmt"
	"time"

	"github.com/mit-pdos/go-journal/vrt"
	"verif/report"
)

// ---- C03: concurrent RPCs are linearizable ----

func init() { Checks["C03"] = C03 }

func C03(r *report.Report, tier string) {
	bound := 1
	points := vrt.PUnlock | vrt.PDiskW
	if tier == "thorough" {
		bound = 2
		points |= vrt.PDiskR
	}
	hs := concHarnesses()
	r.Only = map[string]bool{"C03": true, "C06": true}
	r.Rule = fmt.Sprintf("%d harnesses of 2-3 client threads (1-2 RPCs each) plus the journal's logger and installer and the shrinker on the real server; every schedule with <=%d deviations (a preemption of a runnable thread, or running a journal daemon while a client could run; choices among clients at blocking points are free), scheduling points at every lock acquisition, after every unlock, at disk writes/barriers%s; happens-before state caching; every complete execution: brute-force linearizability of all replies (incl. post-op attributes and listings) and of the final dump against the reference file system, fsck and allocator/cache audit of the final state. distinct_nontrivial = distinct observable outcomes (reply vectors + final state) over all harnesses", len(hs), bound, map[bool]string{true: " and disk reads", false: ""}[tier == "thorough"])
	var sums []*ExploreSummary
	// cross-check of the reduction: the first harnesses once more without state caching -
	// the sets of observable outcomes must coincide (a difference is a machinery error)
	for _, h := range hs[:2] {
		a := ExploreAllOpt(report.New("x", tier, Root), "nfs.conc", h, 1, points, false, false)
		b := ExploreAllOpt(report.New("x", tier, Root), "nfs.conc", h, 1, points, false, true)
		if keysOf(a.Outcomes) != keysOf(b.Outcomes) {
			fatal("state caching changed the outcome set of harness %s: %d vs %d outcomes", h.Name, len(a.Outcomes), len(b.Outcomes))
		}
		r.Note("reduction cross-check %s: %d executions with caching, %d without, same %d outcomes", h.Name, a.Execs, b.Execs, len(a.Outcomes))
	}
	// conformance of the scaled constant: the default execution of every harness with the real
	// lockmap.NSHARD = 65537 must give the same observable outcome as with the scaled value 13
	for _, h := range hs {
		h2 := h
		h2.NShard = 65537
		ra, rb := exploreArg{Harness: "nfs.conc", Arg: mustJSON(h), Points: points, Single: true}, exploreArg{Harness: "nfs.conc", Arg: mustJSON(h2), Points: points, Single: true}
		va, _ := runExplore(mustJSON(ra))
		vb, _ := runExplore(mustJSON(rb))
		if keysOf(va.(*exploreRes).Outcomes) != keysOf(vb.(*exploreRes).Outcomes) || fmt.Sprint(va.(*exploreRes).Sample) != fmt.Sprint(vb.(*exploreRes).Sample) {
			fatal("harness %s behaves differently with lockmap.NSHARD=65537 and with the scaled value 13", h.Name)
		}
	}
	r.Note("NSHARD conformance: default execution of all %d harnesses identical (outcome and schedule) with 65537 and 13 shards", len(hs))
	for hi, h := range hs {
		fairShare(hi, len(hs))
		if timeUp() {
			r.Exhaustive = false
			r.Note("harness %s not run (time budget)", h.Name)
			continue
		}
		s := ExploreAll(r, "nfs.conc", h, bound, points, false)
		s.Harness = h.Name
		sums = append(sums, s)
		for k := range s.Outcomes {
			r.Distinct(h.Name + "|" + k)
		}
		if len(s.Outcomes) < 2 {
			// (a weakness of the harness, not of the server: recorded, and the run does not count as exhaustive)
			r.Note("VACUOUS harness %s: %d executions, one outcome - nothing collided", h.Name, s.Execs)
			r.Exhaustive = false
		}
		short := *s
		short.Outcomes = nil
		r.Sample(map[string]interface{}{"harness": h, "executions": s.Execs, "distinct_outcomes": len(s.Outcomes)})
	}
	for _, s := range sums {
		s.Outcomes = map[string]int64{"(distinct outcomes)": int64(len(s.Outcomes))}
	}
	HarnessDeadline = time.Time{}
	r.Extra["harnesses"] = sums
	r.Extra["bounds"] = map[string]int{"deviations": bound}
}
