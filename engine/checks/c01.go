package checks

import (
	"fmt"

	"verif/fsx"
	"verif/report"
)

// ---- C01: crash atomicity and durability of every NFS operation ----

var crashSetup = []fsx.Op{
	{K: "MKDIR", H: "root", N: "d"},
	{K: "CREATE", H: "root", N: "f"},
	{K: "WRITE", H: "root/f", Off: 0, Cnt: 8192, Pat: 0x31, Stable: 2},
	{K: "CREATE", H: "root", N: "big"},
	{K: "WRITE", H: "root/big", Off: 600 * 4096, Cnt: 1, Pat: 0x32, Stable: 2},
}

func crashAlphabet() []fsx.Op {
	return []fsx.Op{
		{K: "CREATE", H: "root", N: "a"},
		{K: "MKDIR", H: "root", N: "e"},
		{K: "SYMLINK", H: "root", N: "s", Target: "t"},
		{K: "WRITE", H: "root/f", Off: 0, Cnt: 4096, Pat: 0x41, Stable: 2},
		{K: "WRITE", H: "root/f", Off: 5000, Cnt: 3 * 4096, Pat: 0x42, Stable: 1},
		{K: "WRITE", H: "root/f", Off: 4096, Cnt: 20 * 4096, Pat: 0x43, Stable: 0},
		{K: "WRITE", H: "root/f", Off: 3 * 4096, Cnt: 4096, Pat: 0x44, Stable: 2}, // leaves a hole at block 2 (f has two blocks)
		{K: "WRITE", H: "root/f", Off: 0, Cnt: 4 * 4096, Pat: 0x45, Stable: 2},    // after the previous one: fills the hole in front of an allocated block, the file does not grow
		{K: "COMMIT", H: "root/f"},
		{K: "SETATTR", H: "root/f", Size: 100},
		{K: "SETATTR", H: "root/f", NoSize: true, Mtime: 777}, // attributes alone
		{K: "SETATTR", H: "root/big", Size: 5000},             // large truncation: freed in the background
		{K: "RENAME", H: "root", N: "f", H2: "root", N2: "g"},
		{K: "RENAME", H: "root", N: "a", H2: "root", N2: "f"},
		{K: "REMOVE", H: "root", N: "f"},
		{K: "RMDIR", H: "root", N: "d"},
		{K: "REMOVE", H: "root", N: "big"},
	}
}

func crashHistories(al []fsx.Op, depth int) [][]fsx.Op {
	var hs [][]fsx.Op
	var rec func(p []fsx.Op, d int)
	rec = func(p []fsx.Op, d int) {
		if len(p) > 0 {
			hs = append(hs, append([]fsx.Op{}, p...))
		}
		if d == 0 {
			return
		}
		for _, o := range al {
			rec(append(p, o), d-1)
		}
	}
	rec(nil, depth)
	return hs
}

var crashProbe = &fsx.Probe{Full: 1 << 20, Windows: []uint64{600 * 4096}}

func init() { Checks["C01"] = C01 }

func C01(r *report.Report, tier string) {
	depth, cap := 2, 256
	if tier == "thorough" {
		depth, cap = 3, 4096
	}
	al := crashAlphabet()
	r.Rule = fmt.Sprintf("every history of <=%d operations over a %d-symbol crash alphabet (all mutating RPCs, three WRITE stability levels, multi-block and unaligned writes, truncation, renames over existing targets, removal of a 600-block sparse file freed in the background), run on the real server on a recording disk under two background policies (the histories with writes - quick: single operations and a write followed by a non-write - once more with the server's unstable option off), and for the single-operation histories (thorough: also a fifth of the two-operation ones) under every schedule with one deviation in when the journal's daemons run; every cut of the write/barrier trace x every loss choice of un-barriered writes (full product up to %d per epoch, <=2-deviation rule above); each distinct image: independent fsck of the logical disk, recovery by the real MakeNfs under two schedules, full dump must equal the reference state after a prefix that contains every stably acknowledged operation, then allocator/cache audit, six more operations, dump and fsck again. distinct_nontrivial = distinct crash images (canonical key: home blocks + live log) of all histories", depth, len(al), cap)
	var jobs []crashArg
	// (the special histories first: under a time budget the jobs at the end are the ones skipped)
	// histories on a freshly formatted disk whose format has not been installed yet
	for _, h := range [][]fsx.Op{
		{{K: "CREATE", H: "root", N: "a"}},
		{{K: "MKDIR", H: "root", N: "e"}, {K: "CREATE", H: "root/e", N: "x"}},
		{{K: "CREATE", H: "root", N: "a"}, {K: "WRITE", H: "root/a", Off: 0, Cnt: 5000, Pat: 0x45, Stable: 2}},
		{{K: "SYMLINK", H: "root", N: "s", Target: "t"}, {K: "RENAME", H: "root", N: "s", H2: "root", N2: "t"}},
	} {
		for _, eager := range []bool{false, true} {
			jobs = append(jobs, crashArg{Prop: "C01", DiskSize: 3000, Ops: h, Cap: cap, Eager: eager, Fresh: true})
		}
	}
	// a 530-block file freed by several background shrinker transactions (images cut between them)
	maxImg := 120
	if tier == "thorough" {
		maxImg = 0
	}
	for _, h := range [][]fsx.Op{{{K: "REMOVE", H: "root", N: "big"}}, {{K: "SETATTR", H: "root/big", Size: 3 * 4096}, {K: "CREATE", H: "root", N: "n"}}} {
		jobs = append(jobs, crashArg{Prop: "C01", DiskSize: 3000, Setup: big530Setup, Ops: h, Cap: 64, MaxImages: maxImg, Probe: &fsx.Probe{Full: 4 << 20}})
	}
	// the server run with its unstable option off (every write is committed at once and acknowledged FILE_SYNC)
	for _, h := range crashHistories(al, depth) {
		hasWrite := false
		for _, o := range h {
			if o.K == "WRITE" {
				hasWrite = true
			}
		}
		if hasWrite && (len(h) == 1 || (len(h) == 2 && (tier == "thorough" || (h[0].K == "WRITE" && h[1].K != "WRITE")))) {
			jobs = append(jobs, crashArg{Prop: "C01", DiskSize: 3000, Setup: crashSetup, Ops: h, Cap: cap, Probe: crashProbe, NoUnstable: true})
		}
	}
	for _, h := range crashHistories(al, depth) {
		for _, eager := range []bool{false, true} {
			jobs = append(jobs, crashArg{Prop: "C01", DiskSize: 3000, Setup: crashSetup, Ops: h, Cap: cap, Eager: eager, Probe: crashProbe, Nested: tier == "thorough" || len(h) == 1})
		}
		if len(h) == 1 || (tier == "thorough" && len(h) == 2 && h[0].K != h[1].K) {
			// the disk trace depends on when the journal's daemons run: every schedule of the history run with
			// one deviation (a daemon runs at a point where the client could have continued), points at disk writes
			c := 64
			if tier == "thorough" {
				c = 256
			}
			if len(h) == 1 || len(jobs)%5 == 0 {
				jobs = append(jobs, crashArg{Prop: "C01", DiskSize: 3000, Setup: crashSetup, Ops: h, Cap: c, Sched: 1, Probe: crashProbe})
			}
		}
		if tier == "thorough" && len(h) <= 2 {
			// descending map iteration: the other order of blocks inside one log append and of lock releases
			jobs = append(jobs, crashArg{Prop: "C01", DiskSize: 3000, Setup: crashSetup, Ops: h, Cap: cap, MapDesc: true, Probe: crashProbe})
		}
		if tier == "thorough" && len(h) == 2 {
			// an inode cache of two: the second operation finds the first one's inodes evicted (re-read through the journal)
			jobs = append(jobs, crashArg{Prop: "C01", DiskSize: 3000, Setup: crashSetup, Ops: h, Cap: cap, ICacheSz: 2, Probe: crashProbe})
		}
	}
	runCrashJobs(r, jobs, map[string]bool{"C01": true})
	r.Add("states", int64(r.NDistinct()))
	r.Extra["bounds"] = map[string]int{"depth": depth, "loss_product_cap": cap}
	r.Assumptions = append(r.Assumptions, "block writes are atomic, Barrier persists everything issued before it (Disk contract)", "images are deduplicated by home blocks + header + live log entries; log blocks outside [start,end) are never read by recovery")
}
