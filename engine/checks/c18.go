package checks

import (
	"encoding/json"
	"fmt"
	"sort"
	"strings"

	"github.com/mit-pdos/go-journal/vrt"
	"github.com/mit-pdos/go-nfsd/kvs"
	"verif/crash"
	"verif/lin"
	"verif/par"
	"verif/report"
	"verif/vdisk"
)

// ---- C18: KVS multi-put is atomic, durable and read-your-writes ----

const kvsSize = 1100 // disk blocks = key space upper bound

var kvsKeys = []uint64{513, 514, kvsSize - 1}

type kvOp struct {
	Put  bool     `json:"put,omitempty"`
	Keys []uint64 `json:"keys,omitempty"`
	Tags []byte   `json:"tags,omitempty"`
	Big  int      `json:"big,omitempty"` // put of Big consecutive keys from 520, tag Tags[0]
	Get  uint64   `json:"get,omitempty"`
}

func (o kvOp) String() string {
	if o.Put {
		if o.Big > 0 {
			return fmt.Sprintf("put[%d keys from 520]=%d", o.Big, o.Tags[0])
		}
		var s []string
		for i, k := range o.Keys {
			s = append(s, fmt.Sprintf("%d=%d", k, o.Tags[i]))
		}
		return "put{" + strings.Join(s, ",") + "}"
	}
	return fmt.Sprintf("get(%d)", o.Get)
}

func (o kvOp) pairs() []kvs.KVPair {
	var ps []kvs.KVPair
	if o.Big > 0 {
		for i := 0; i < o.Big; i++ {
			ps = append(ps, kvs.KVPair{Key: 520 + uint64(i), Val: tagBlock(o.Tags[0])})
		}
		return ps
	}
	for i, k := range o.Keys {
		ps = append(ps, kvs.KVPair{Key: k, Val: tagBlock(o.Tags[i])})
	}
	return ps
}

// outOfRange: the put names a key outside [LOGSIZE, size) - the journal's own blocks or beyond the store
func (o kvOp) outOfRange() bool {
	for _, k := range o.Keys {
		if k < 513 || k >= kvsSize {
			return true
		}
	}
	return false
}

func tagBlock(t byte) []byte {
	b := make([]byte, 4096)
	for i := range b {
		b[i] = t
	}
	return b
}

// blockTag: the tag if the block is uniformly one byte, else -1 (torn / foreign)
func blockTag(b []byte) int {
	if len(b) != 4096 {
		return -1
	}
	for _, x := range b {
		if x != b[0] {
			return -1
		}
	}
	return int(b[0])
}

// specification: a map from key to tag (0 initially)
type kvSpec map[uint64]byte

func (s kvSpec) Clone() lin.Model {
	c := kvSpec{}
	for k, v := range s {
		c[k] = v
	}
	return c
}

type kvOut struct {
	Ok  bool `json:"ok"`
	Tag int  `json:"tag"`
}

func (s kvSpec) apply(o kvOp) kvOut {
	if o.Put {
		if o.Big > 511 || len(o.Keys) > 511 {
			return kvOut{Ok: false}
		}
		for _, p := range o.pairs() {
			s[p.Key] = p.Val[0]
		}
		return kvOut{Ok: true}
	}
	return kvOut{Ok: true, Tag: int(s[o.Get])}
}

func (s kvSpec) Step(in, out interface{}) bool {
	return s.applyOut(in.(kvOp), out.(kvOut))
}

// applyOut: does the specification allow this reply?  (and moves to the state after it).  A put that names a key
// outside the key range may be refused (no effect at all) or accepted (its pairs inside the range are then in
// force) - what the store must not do is be damaged by it, which the observations that follow decide.
func (s kvSpec) applyOut(o kvOp, got kvOut) bool {
	if o.Put && o.outOfRange() {
		if got.Ok {
			for _, p := range o.pairs() {
				if p.Key >= 513 && p.Key < kvsSize {
					s[p.Key] = p.Val[0]
				}
			}
		}
		return got.Tag == 0
	}
	return s.apply(o) == got
}

func (s kvSpec) key() string {
	var ks []uint64
	for k := range s {
		ks = append(ks, k)
	}
	sort.Slice(ks, func(i, j int) bool { return ks[i] < ks[j] })
	var sb strings.Builder
	for _, k := range ks {
		if s[k] != 0 {
			fmt.Fprintf(&sb, "%d=%d,", k, s[k])
		}
	}
	return sb.String()
}

func kvDo(k *kvs.KVS, o kvOp) (out kvOut) {
	if o.Put {
		if o.outOfRange() {
			// the store refuses such a put by panicking before anything is committed: that is a refusal, not a crash
			defer func() {
				if r := recover(); r != nil {
					if e, ok := r.(error); ok && strings.Contains(e.Error(), "out-of-bounds") {
						out = kvOut{Ok: false}
						return
					}
					panic(r)
				}
			}()
		}
		return kvOut{Ok: k.MultiPut(o.pairs())}
	}
	p, ok := k.Get(o.Get)
	return kvOut{Ok: ok, Tag: blockTag(p.Val)}
}

func kvAlphabet(tier string) []kvOp {
	var al []kvOp
	for _, k := range kvsKeys {
		al = append(al, kvOp{Get: k})
	}
	al = append(al,
		kvOp{Put: true, Keys: []uint64{513}, Tags: []byte{1}},
		kvOp{Put: true, Keys: []uint64{kvsSize - 1}, Tags: []byte{2}},
		kvOp{Put: true, Keys: []uint64{513, 514}, Tags: []byte{3, 3}},
		kvOp{Put: true, Keys: []uint64{514, 513}, Tags: []byte{4, 4}},
		kvOp{Put: true, Keys: []uint64{513, 514, kvsSize - 1}, Tags: []byte{5, 5, 5}},
		kvOp{Put: true, Keys: []uint64{513, 513}, Tags: []byte{6, 7}}, // repeated key: later pair wins
		// fourteen pairs, one key twice (first and last / in the middle): the later pair wins whatever the put does with the order
		kvOp{Put: true, Keys: []uint64{513, 530, 529, 528, 527, 526, 525, 524, 523, 522, 521, 520, 514, 513}, Tags: []byte{12, 1, 1, 1, 1, 1, 1, 1, 1, 1, 1, 1, 1, 13}},
		kvOp{Put: true, Keys: []uint64{520, 521, 522, 523, 514, 524, 525, 526, 514, 527, 528, 529, 530, 531, 532, 533}, Tags: []byte{1, 1, 1, 1, 14, 1, 1, 1, 15, 1, 1, 1, 1, 1, 1, 1}},
		kvOp{Put: true, Big: 6, Tags: []byte{8}},
		kvOp{Put: true, Big: 300, Tags: []byte{9}},
		kvOp{Put: true, Big: 511, Tags: []byte{10}},
		kvOp{Put: true, Big: 512, Tags: []byte{11}}, // too big for one journal transaction: must fail, no effect
		// keys outside the key range: the journal's own blocks (header, last log block) and the first block beyond the store
		kvOp{Put: true, Keys: []uint64{0}, Tags: []byte{21}},
		kvOp{Put: true, Keys: []uint64{514, 1}, Tags: []byte{22, 22}},
		kvOp{Put: true, Keys: []uint64{512}, Tags: []byte{23}},
		kvOp{Put: true, Keys: []uint64{513, kvsSize}, Tags: []byte{24, 24}},
	)
	return al
}

// allGets observes the whole (relevant) key space.
func kvObserve(k *kvs.KVS) map[uint64]int {
	obs := map[uint64]int{}
	for _, key := range kvsKeys {
		p, _ := k.Get(key)
		obs[key] = blockTag(p.Val)
	}
	for key := uint64(520); key < 1040; key += 37 {
		p, _ := k.Get(key)
		obs[key] = blockTag(p.Val)
	}
	for _, key := range []uint64{520, 525, 526, 819, 820, 1030, 1031, 1032} {
		p, _ := k.Get(key)
		obs[key] = blockTag(p.Val)
	}
	return obs
}

func kvObsEqual(obs map[uint64]int, s kvSpec) bool {
	for k, t := range obs {
		if int(s[k]) != t {
			return false
		}
	}
	return true
}

// ---------- sequential + crash job: one history ----------

type kvSeqArg struct {
	Ops    []kvOp `json:"ops"`
	Crash  bool   `json:"crash"`
	Cap    int    `json:"cap"`
	Nested bool   `json:"nested"`
}

type kvSeqRes struct {
	Transitions  int64               `json:"transitions"`
	StateKeys    []string            `json:"state_keys"`
	Images       int64               `json:"images"`
	Nontrivial   int64               `json:"nontrivial"`
	Raw          int64               `json:"raw"`
	CappedEpochs int                 `json:"capped_epochs"`
	Recoveries   int64               `json:"recoveries"`
	Viols        []*report.Violation `json:"viols"`
	ImageKeys    []string            `json:"image_keys"`
}

func kvHist(ops []kvOp) string {
	var s []string
	for _, o := range ops {
		s = append(s, o.String())
	}
	return strings.Join(s, "; ")
}

func kvSeqJob(raw json.RawMessage) (interface{}, error) {
	var a kvSeqArg
	if err := json.Unmarshal(raw, &a); err != nil {
		return nil, err
	}
	out := &kvSeqRes{}
	base := vdisk.NewImage(kvsSize)
	spec := kvSpec{}
	specs := []kvSpec{spec.Clone().(kvSpec)} // state after each prefix
	var d *vdisk.Disk
	viol := func(sig, detail string) {
		out.Viols = append(out.Viols, &report.Violation{Property: "C18", Sig: sig, Detail: detail,
			Replay: map[string]interface{}{"job": "c18.seq", "arg": a}})
	}
	res := vrt.Run(vrt.Config{}, func() {
		d = vdisk.New(base)
		k := kvs.MkKVS(d, kvsSize)
		for i, o := range a.Ops {
			d.Mark("inv", i+1, 0)
			got := kvDo(k, o)
			d.Mark("ack", i+1, 1)
			before := spec.Clone().(kvSpec)
			out.Transitions++
			if !spec.applyOut(o, got) {
				viol(fmt.Sprintf("seq|%s|reply", o.String()), fmt.Sprintf("history %s: op %d %s returned %+v, specification says %+v", kvHist(a.Ops), i+1, o, got, before.apply(o)))
				return
			}
			specs = append(specs, spec.Clone().(kvSpec))
			out.StateKeys = append(out.StateKeys, spec.key())
		}
		// observation sweep at the end: every key
		if obs := kvObserve(k); !kvObsEqual(obs, spec) {
			viol(fmt.Sprintf("seq|%s|final-state", a.Ops[len(a.Ops)-1].String()), fmt.Sprintf("history %s: observed %v, specification %v", kvHist(a.Ops), obs, spec))
		}
		vrt.Quiesce() // let the installer finish: its writes belong to the trace
		k.Delete()
	})
	if v := VerdictViolation(&res, "C18", "seq "+kvHist(a.Ops)); v != nil {
		v.Replay = map[string]interface{}{"job": "c18.seq", "arg": a}
		out.Viols = append(out.Viols, v)
		return out, nil
	}
	if !a.Crash || len(out.Viols) > 0 {
		return out, nil
	}
	kvCrashCheck(out, &a, base, d.Log, specs, 0, viol)
	return out, nil
}

// positions -> (a,b): a = last op acknowledged before position p, b = last op invoked before p
func ackBounds(log []vdisk.Event) (ack []int, inv []int) {
	ack = make([]int, len(log)+1)
	inv = make([]int, len(log)+1)
	a, b := 0, 0
	for i, e := range log {
		ack[i], inv[i] = a, b
		if e.Kind == vdisk.EvMark {
			if e.Mark == "ack" && e.Arg == 1 && e.Op > a {
				a = e.Op
			}
			if e.Mark == "inv" && e.Op > b {
				b = e.Op
			}
		}
	}
	ack[len(log)], inv[len(log)] = a, b
	return
}

// prefixOK: for every cut position p at which the image is possible, some
// matching prefix state k must satisfy ack[p] <= k <= inv[p].
func prefixOK(K []int, ranges []crash.Range, ack, inv []int) (bool, int, int, int) {
	for _, rg := range ranges {
		for p := rg.PMin; p <= rg.PMax; p++ {
			ok := false
			for _, k := range K {
				if k >= ack[p] && k <= inv[p] {
					ok = true
					break
				}
			}
			if !ok {
				return false, p, ack[p], inv[p]
			}
		}
	}
	return true, 0, 0, 0
}

func kvCrashCheck(out *kvSeqRes, a *kvSeqArg, base *vdisk.Image, log []vdisk.Event, specs []kvSpec, depth int, viol func(sig, detail string)) {
	cr := crash.Enumerate(base, log, a.Cap)
	out.Raw += cr.Stats.RawChoices
	out.CappedEpochs += cr.Stats.CappedEpochs
	ack, inv := ackBounds(log)
	for _, im := range cr.Images {
		out.Images++
		if im.Lost > 0 || im.LogNonEmpty {
			out.Nontrivial++
		}
		out.ImageKeys = append(out.ImageKeys, fmt.Sprintf("%x", im.Key[:8]))
		for pol := 0; pol < 2; pol++ {
			var obs map[uint64]int
			var d2 *vdisk.Disk
			res := vrt.Run(vrt.Config{}, func() {
				d2 = vdisk.New(im.Img)
				k := mkKVS(d2, kvsSize)
				if pol == 1 {
					vrt.Quiesce() // installer first
				}
				obs = kvObserve(k)
				if pol == 0 {
					vrt.Quiesce()
				}
				// the recovered store keeps working
				k.MultiPut([]kvs.KVPair{{Key: 513, Val: tagBlock(99)}})
				p, _ := k.Get(513)
				if blockTag(p.Val) != 99 {
					obs[0] = -99
				}
				vrt.Quiesce()
			})
			out.Recoveries++
			if v := VerdictViolation(&res, "C18", "recovery"); v != nil {
				viol(v.Sig, fmt.Sprintf("history %s, image %s: %s", kvHist(a.Ops), im.Desc, v.Detail))
				continue
			}
			// which prefix states match?
			var K []int
			for k, s := range specs {
				if kvObsEqual(obs, s) {
					K = append(K, k)
				}
			}
			if ok, p, lo, hi := prefixOK(K, im.Ranges, ack, inv); !ok {
				last := ""
				if hi >= 1 && hi <= len(a.Ops) {
					last = a.Ops[hi-1].String()
				}
				viol(fmt.Sprintf("crash|%s|not-a-prefix-state", last),
					fmt.Sprintf("history %s\nimage %s (cut %d, recovery policy %d)\nrecovered %v\nmatches prefix states %v but must match one in [%d,%d]", kvHist(a.Ops), im.Desc, p, pol, obs, K, lo, hi))
			}
			// nested crash during recovery (installer writes + Advance), policy 1 trace only
			if a.Nested && depth == 0 && pol == 1 && len(K) > 0 {
				// find where the recovery's own ops begin: cut the trace before the extra put
				sub := d2.Log
				for i, e := range sub {
					_ = e
					_ = i
				}
				kvNested(out, a, im, sub, specs, K, viol)
			}
		}
	}
}

// nested: crash images of the recovery's own trace (up to its first new
// MultiPut) must recover to the same prefix state again.
func kvNested(out *kvSeqRes, a *kvSeqArg, parent *crash.CImage, log []vdisk.Event, specs []kvSpec, K []int, viol func(sig, detail string)) {
	// the recovery trace has no markers; the extra put starts at the first write to a log data block after the installer went idle.
	// Simpler and sound: only consider the prefix of the trace up to and including the first two barriers following the last home write
	// of the initial install, i.e. stop at the first write into the log region (address 2..512), which belongs to the extra put.
	end := len(log)
	for i, e := range log {
		if e.Kind == vdisk.EvWrite && e.Addr >= crash.LogStart && e.Addr < crash.HomeBase {
			end = i
			break
		}
	}
	cr := crash.Enumerate(parent.Img, log[:end], a.Cap)
	for _, im := range cr.Images {
		var obs map[uint64]int
		res := vrt.Run(vrt.Config{}, func() {
			d3 := vdisk.New(im.Img)
			k := mkKVS(d3, kvsSize)
			obs = kvObserve(k)
		})
		out.Recoveries++
		out.Images++
		if im.Lost > 0 || im.LogNonEmpty {
			out.Nontrivial++
		}
		if v := VerdictViolation(&res, "C18", "nested recovery"); v != nil {
			viol(v.Sig, v.Detail)
			continue
		}
		ok := false
		for _, k := range K {
			if kvObsEqual(obs, specs[k]) {
				ok = true
			}
		}
		if !ok {
			viol("crash|nested|state-changed", fmt.Sprintf("history %s\nfirst crash image %s recovered to prefix state(s) %v; after a second crash during recovery (%s) the store holds %v", kvHist(a.Ops), parent.Desc, K, im.Desc, obs))
		}
	}
}

// ---------- concurrent harness ----------

type kvConcArg struct {
	Clients [][]kvOp `json:"clients"`
}

func kvConcHarness(raw json.RawMessage, cfg vrt.Config) (vrt.Result, Outcome) {
	var a kvConcArg
	json.Unmarshal(raw, &a)
	base := vdisk.NewImage(kvsSize)
	var hist []lin.Op
	var outc Outcome
	res := vrt.Run(cfg, func() {
		d := vdisk.New(base)
		d.Record = false
		k := kvs.MkKVS(d, kvsSize)
		vrt.SetBranching(true)
		var ids []int
		for ci, ops := range a.Clients {
			ci, ops := ci, ops
			ids = append(ids, vrt.Go(fmt.Sprintf("client%d", ci), vrt.ClClient, func() {
				for _, o := range ops {
					inv := vrt.Steps()
					got := kvDo(k, o)
					hist = append(hist, lin.Op{Client: ci, Inv: inv, Ret: vrt.Steps(), In: o, Out: got})
				}
			}))
		}
		vrt.Join(ids...)
		vrt.SetBranching(false)
		// final state is part of the history
		for _, key := range kvsKeys {
			o := kvOp{Get: key}
			inv := vrt.Steps() + 1
			got := kvDo(k, o)
			hist = append(hist, lin.Op{Client: 99, Inv: inv, Ret: inv, In: o, Out: got})
		}
	})
	var ks []string
	sort.SliceStable(hist, func(i, j int) bool { return hist[i].Client < hist[j].Client })
	for _, h := range hist {
		ks = append(ks, fmt.Sprintf("%d:%s->%+v", h.Client, h.In.(kvOp), h.Out.(kvOut)))
	}
	outc.Key = strings.Join(ks, " | ")
	if v := VerdictViolation(&res, "C18", "concurrent"); v != nil {
		outc.Viol = v
		return res, outc
	}
	if ok, _ := lin.Check(kvSpec{}, hist); !ok {
		outc.Viol = &report.Violation{Property: "C18", Sig: "conc|not-linearizable|" + outc.Key, Detail: "history is not linearizable against the map specification:\n" + outc.Key}
	}
	return res, outc
}

// concurrent clients and a crash: see conccrash.go
type kvCCArg struct {
	Name    string   `json:"name"`
	Init    []kvOp   `json:"init,omitempty"` // puts before the clients start (installed)
	Clients [][]kvOp `json:"clients"`
	Cap     int      `json:"cap"`
}

var kvCCStats ccStats

func kvCCHarness(raw json.RawMessage, cfg vrt.Config) (vrt.Result, Outcome) {
	var a kvCCArg
	json.Unmarshal(raw, &a)
	var outc Outcome
	var ops []ccOp
	var d *vdisk.Disk
	var base *vdisk.Image
	init0 := kvSpec{}
	for _, ci := range a.Clients {
		for _, o := range ci {
			ops = append(ops, ccOp{In: o})
		}
	}
	res := vrt.Run(cfg, func() {
		d0 := vdisk.New(vdisk.NewImage(kvsSize))
		d0.Record = false
		k0 := kvs.MkKVS(d0, kvsSize)
		for _, o := range a.Init {
			kvDo(k0, o)
			init0.apply(o)
		}
		vrt.Quiesce()
		base = d0.Snapshot().Flatten()
		// the store under test: a new instance on the prepared image, recorded from here on
		d = vdisk.New(base)
		k := kvs.MkKVS(d, kvsSize)
		vrt.Quiesce()
		vrt.SetBranching(true)
		var ids []int
		id := 0
		for ci, cops := range a.Clients {
			ci, cops, first := ci, cops, id
			id += len(cops)
			ids = append(ids, vrt.Go(fmt.Sprintf("client%d", ci), vrt.ClClient, func() {
				for j, o := range cops {
					d.Mark("inv", first+j, 0)
					got := kvDo(k, o)
					ops[first+j].Client, ops[first+j].Out = ci, got
					d.Mark("ack", first+j, 0)
				}
			}))
		}
		vrt.Join(ids...)
		vrt.SetBranching(false)
		vrt.Quiesce()
	})
	var ks []string
	for _, o := range ops {
		ks = append(ks, fmt.Sprintf("%d:%s->%+v", o.Client, o.In.(kvOp), o.Out))
	}
	outc.Key = strings.Join(ks, " | ")
	if v := VerdictViolation(&res, "C18", "concurrent"); v != nil {
		outc.Viol = v
		return res, outc
	}
	if res.Pruned {
		return res, outc
	}
	ccPositions(d.Log, ops)
	show := func(in, out interface{}) string {
		if out == nil {
			return in.(kvOp).String()
		}
		return fmt.Sprintf("%s->%+v", in.(kvOp), out)
	}
	recoverObs := func(img *vdisk.Image, pol int) ([]lin.Op, *vrt.Result) {
		var obs []lin.Op
		r := vrt.Run(vrt.Config{}, func() {
			k := mkKVS(vdisk.New(img), kvsSize)
			if pol == 1 {
				vrt.Quiesce()
			}
			for _, key := range kvsKeys {
				o := kvOp{Get: key}
				obs = append(obs, lin.Op{Client: 99, In: o, Out: kvDo(k, o)})
			}
			vrt.Quiesce()
		})
		return obs, &r
	}
	if sig, detail := concCrashCheck(a.Name, base, d.Log, ops, init0, kvOut{}, recoverObs, show, func(in interface{}) bool { return in.(kvOp).Put }, a.Cap, &kvCCStats); sig != "" {
		outc.Viol = &report.Violation{Property: "C18", Sig: sig, Detail: detail}
	}
	return res, outc
}

func init() {
	RegisterHarness("c18.conccrash", kvCCHarness)
	par.Register("c18.seq", kvSeqJob)
	RegisterHarness("c18.conc", kvConcHarness)
	Checks["C18"] = C18
}

func C18(r *report.Report, tier string) {
	al := kvAlphabet(tier)
	depth, crashDepth, bound := 2, 2, 2
	if tier == "thorough" {
		depth, crashDepth, bound = 3, 3, 3
	}
	r.Rule = fmt.Sprintf("sequential: every sequence of <=%d operations over a %d-symbol alphabet of multi-puts (1..3 keys, repeated key also among 14 and 16 pairs, 6/300/511/512 keys) and gets at the key-range boundaries, each reply and the final state against a map; crash: every crash image (cut x loss of un-barriered writes, nested crash in recovery) of every put-only history of depth <=%d, recovered with the real MkKVS under two recovery schedules, must equal the map after a prefix that contains every returned put; concurrent: all schedules with <=%d preemptions of 3-client harnesses, brute-force linearizability; concurrent + crash: for every schedule (one deviation less, no state caching) of four 2-client harnesses (put against an oversized put that fails, against gets, against an overlapping put, puts that re-write current values) every crash image of the recorded trace, at every cut at which it is possible: the puts acknowledged before the cut, any subset of the pending ones and the recovered store must be linearizable (gets are left out: a get may see a put that is not durable yet). distinct_nontrivial counts distinct crash images with a lost pending write or a non-empty on-disk log.", depth, len(al), crashDepth, bound)
	// sequences
	var jobs []interface{}
	var rec func(prefix []kvOp, d int)
	rec = func(prefix []kvOp, d int) {
		if len(prefix) > 0 {
			onlyPuts := true
			for _, o := range prefix {
				if !o.Put {
					onlyPuts = false
				}
			}
			last := prefix[len(prefix)-1]
			// a crash job subsumes the sequential one; histories ending in a get add nothing to crash exploration
			big := 0
			for _, o := range prefix {
				if o.Big >= 300 || len(o.Keys) >= 10 {
					big++
				}
			}
			// crash images of the very large puts only for the single-operation histories (each has
			// hundreds of pending addresses: the capped enumeration rule applies there)
			doCrash := onlyPuts && len(prefix) <= crashDepth && last.Put && (big == 0 || len(prefix) == 1)
			jobs = append(jobs, kvSeqArg{Ops: append([]kvOp{}, prefix...), Crash: doCrash, Cap: 4096, Nested: big == 0})
		}
		if d == 0 {
			return
		}
		for _, o := range al {
			rec(append(prefix, o), d-1)
		}
	}
	rec(nil, depth)
	states := map[string]bool{"": true}
	par.Map("c18.seq", jobs, par.Options{Deadline: Deadline}, func(i int, res *par.Result) {
		if res.Skipped {
			r.Exhaustive = false
			r.Add("jobs_not_run_time_budget", 1)
			return
		}
		if res.Crashed || res.Err != "" {
			a := jobs[i].(kvSeqArg)
			r.Violate(report.Violation{Sig: "worker-died|" + kvHist(a.Ops), Detail: res.Err + tail(res.Stderr, 3000), Replay: map[string]interface{}{"job": "c18.seq", "arg": a}})
			return
		}
		var x kvSeqRes
		json.Unmarshal(res.Out, &x)
		r.Add("transitions", x.Transitions)
		r.Add("traces_validated_against_impl", 1+x.Recoveries)
		r.Add("crash_images", x.Images)
		r.Add("crash_choice_vectors", x.Raw)
		r.Add("recoveries", x.Recoveries)
		if x.CappedEpochs > 0 {
			r.Add("capped_epochs", int64(x.CappedEpochs))
			r.Exhaustive = false
		}
		for _, k := range x.StateKeys {
			states[k] = true
		}
		for _, k := range x.ImageKeys {
			r.Distinct(k)
		}
		for _, v := range x.Viols {
			r.Violate(*v)
		}
		if i%97 == 0 {
			r.Sample(map[string]interface{}{"history": kvHist(jobs[i].(kvSeqArg).Ops), "crash_images": x.Images, "recoveries": x.Recoveries})
		}
	})
	r.Add("histories", int64(len(jobs)))
	// concurrent harnesses
	A := func(t byte) kvOp { return kvOp{Put: true, Keys: []uint64{513, 514}, Tags: []byte{t, t}} }
	B := func(t byte) kvOp { return kvOp{Put: true, Keys: []uint64{514, 513}, Tags: []byte{t, t}} }
	hs := []kvConcArg{
		{Clients: [][]kvOp{{A(1)}, {B(2)}, {{Get: 513}, {Get: 514}}}},
		{Clients: [][]kvOp{{A(1), {Get: 514}}, {B(2), {Get: 513}}}},
		{Clients: [][]kvOp{{{Put: true, Keys: []uint64{513}, Tags: []byte{1}}}, {{Put: true, Keys: []uint64{513}, Tags: []byte{2}}}, {{Get: 513}, {Get: 513}}}},
	}
	var sums []*ExploreSummary
	for _, h := range hs {
		s := ExploreAll(r, "c18.conc", h, bound, vrt.PDiskW|vrt.PDiskR, false)
		if len(s.Outcomes) < 2 {
			r.Note("VACUOUS: harness %+v produced %d distinct outcome(s)", h, len(s.Outcomes))
			r.Exhaustive = false
		}
		sums = append(sums, s)
		r.Sample(map[string]interface{}{"concurrent_harness": h, "executions": s.Execs, "distinct_outcomes": len(s.Outcomes)})
	}
	// concurrent clients and a crash (durable linearizability); also: puts that re-write current values
	X := func(keys []uint64, tags ...byte) kvOp { return kvOp{Put: true, Keys: keys, Tags: tags} }
	ccs := []kvCCArg{
		{Name: "put-vs-oversized-put", Clients: [][]kvOp{{X([]uint64{513}, 1)}, {{Put: true, Big: 560, Tags: []byte{7}}}}}, // (more than 511 pairs: refused)
		{Name: "put-vs-get", Clients: [][]kvOp{{A(1)}, {{Get: 513}, {Get: 514}}}},
		{Name: "put-vs-put-overlapping", Clients: [][]kvOp{{A(1)}, {B(2)}}},
		{Name: "rewrite-current-values", Init: []kvOp{X([]uint64{513}, 1), X([]uint64{514}, 2)}, Clients: [][]kvOp{{X([]uint64{513, 514}, 1, 1)}, {X([]uint64{513, 514}, 2, 2)}}},
	}
	for _, h := range ccs {
		h.Cap = 64
		s := ExploreAllOpt(r, "c18.conccrash", h, bound-1, vrt.PDiskW|vrt.PUnlock, false, true)
		s.Harness = "conccrash:" + h.Name
		sums = append(sums, s)
		r.Sample(map[string]interface{}{"concurrent_crash_harness": h, "executions": s.Execs, "distinct_outcomes": len(s.Outcomes)})
	}
	r.Extra["concurrent"] = sums
	r.Add("states", int64(len(states)))
	r.Extra["bounds"] = map[string]int{"seq_depth": depth, "crash_depth": crashDepth, "preemptions": bound}
	r.Assumptions = append(r.Assumptions, "block writes are atomic (Disk contract)", "log blocks outside [start,end) of the on-disk header are never read by recovery (validated: canonicalisation key covers headers, live log entries and all home blocks)", "lockmap.NSHARD scaled to 13")
}
