package checks

import (
	"fmt"
	"strings"

	"github.com/mit-pdos/go-journal/vrt"
	"verif/fsx"
	"verif/reffs"
	"verif/report"
	"verif/vdisk"
)

// ---- C10: the running server and a restart from its disk are indistinguishable ----

func c10Alphabet() []fsx.Op {
	al := nsAlphabet()
	var out []fsx.Op
	for _, o := range al {
		if o.K == "RESTART" {
			continue // the oracle itself restarts
		}
		out = append(out, o)
	}
	out = append(out,
		fsx.Op{K: "CREATEMANY", H: "root/d", N: "m", Cnt: 120},          // more live inodes than the cache holds
		fsx.Op{K: "CREATEMANY", H: "root", N: "k", Cnt: 40},             // directory of two blocks
		fsx.Op{K: "CREATEMANY", H: "root/d", N: "L", Cnt: 20, Len: 112}, // twenty names of the maximal length
		fsx.Op{K: "REMOVETHIRD", H: "root/d"},
		fsx.Op{K: "REMOVETHIRD", H: "root"},
		fsx.Op{K: "CREATE", H: "root", N: nameOfLen(200, 'z')},
		fsx.Op{K: "RENAME", H: "root", N: "a", H2: "root", N2: nameOfLen(200, 'z')},
		fsx.Op{K: "WRITE", H: "root/a", Off: 700 * 4096, Cnt: 1, Pat: 0x55, Stable: 2}, // (700 blocks: a later truncation or removal is finished in the background)
		fsx.Op{K: "FAILMANY", H: "root", Cnt: 150},                                     // 150 refused requests in a row (each abort drops cached inodes)
		fsx.Op{K: "SHRINKCRASH"},                                                       // the server's Crash(): background freeing stops half-way; a new instance on the same disk
		fsx.Op{K: "READ", H: "root/a", Off: 100 * 4096, Cnt: 8192},                     // hole-filling read
		fsx.Op{K: "SETATTR", H: "root/d", Size: 64},
		// refused after the source name has been taken out and before anything is allocated or freed: the target "directory" is a file / a symbolic link
		fsx.Op{K: "RENAME", H: "root", N: "a", H2: "root/d/a", N2: "x"},
		fsx.Op{K: "RENAME", H: "root/d", N: "a", H2: "root/s", N2: "x"},
		fsx.Op{K: "RENAME", H: "root", N: "b", H2: "root/a", N2: "b"},
	)
	return out
}

func firstDiff(a, b string) string {
	la, lb := strings.Split(a, "\n"), strings.Split(b, "\n")
	for i := 0; i < len(la) && i < len(lb); i++ {
		if la[i] != lb[i] {
			return fmt.Sprintf("line %d:\n   %s\nvs %s", i, clip(la[i]), clip(lb[i]))
		}
	}
	return fmt.Sprintf("%d vs %d lines", len(la), len(lb))
}

func clip(s string) string {
	if len(s) > 400 {
		return s[:400] + "..."
	}
	return s
}

func c10After(w *World, path []fsx.Op, r fsx.Reply, implFail bool, mis *reffs.Mismatch, viol func(sig, detail string)) {
	// quiescent, everything flushed (the key computation has flushed and let the installer finish)
	if w.Pending {
		w.Flush()
	}
	vrt.Quiesce()
	fr := w.Fsck()
	for _, e := range w.Audit(fr) {
		viol("audit|"+ruleOf(e), e)
	}
	probe := w.Probe
	a := fsx.ExactDump(w.Srv, probe)
	// recovery from the image at this point (no shutdown)
	vrt.Quiesce()
	img := w.Disk.Snapshot()
	srvC := mkNfs(vdisk.New(img))
	c := fsx.ExactDump(srvC, probe)
	if a != c {
		viol("running-vs-recovered-image", "the running server and a server recovered from its current disk image differ: "+firstDiff(a, c))
	}
	// clean restart on the same disk
	w.Srv.ShutdownNfs()
	w.Srv = mkNfs(w.Disk)
	b := fsx.ExactDump(w.Srv, probe)
	if a != b {
		viol("running-vs-restarted", "before and after a clean restart a client observes different things: "+firstDiff(a, b))
	}
}

func init() {
	Checks["C10"] = C10
	p := &fsx.Probe{Full: 1 << 20, Windows: []uint64{700 * 4096, 100 * 4096}}
	key := func(w *World) string { w.Probe = p; return w.defaultKey() }
	RegisterSeq("c10.seq", &SeqSpec{Prop: "C10", DiskSize: 3000, Alphabet: c10Alphabet(), After: c10After, Key: key})
	// the inode table exhausted: 32765 live objects, a directory of 1024 blocks
	RegisterSeq("c10.inodes", &SeqSpec{Prop: "C10", Prep: "inofull", After: c10After, Key: key, AllowImplFail: true, Alphabet: []fsx.Op{
		{K: "REMOVE", H: "root/bulk", N: "f16000"}, {K: "CREATE", H: "root", N: "n1"}, {K: "CREATE", H: "root/bulk", N: "n1"}, {K: "MKDIR", H: "root/d", N: "n2"},
		{K: "RENAME", H: "root/bulk", N: "f00000", H2: "root/bulk", N2: "f00001"}, {K: "SETATTR", H: "root/bulk/f32700", Size: 5000}, {K: "REMOVETHIRD", H: "root/bulk"},
	}})
	// a disk with 10 free data blocks: allocations that fail half-way, blocks given back in the transaction that took them
	var tiny []fsx.Op
	for _, o := range c05TinyAlphabet() {
		if o.K != "RESTART" && o.K != "DELETEALL" {
			tiny = append(tiny, o)
		}
	}
	// from a state with a 700-block sparse file: dropped in every way, interrupted by the server's Crash() or not, then reuse
	var big []fsx.Op
	for _, o := range c05BigAlphabet() {
		if o.K != "RESTART" && o.K != "DELETEALL" {
			big = append(big, o)
		}
	}
	RegisterSeq("c10.big", &SeqSpec{Prop: "C10", DiskSize: 2200, Setup: c05BigSetup, Alphabet: big, After: c10After, Key: key})
	RegisterSeq("c10.tiny", &SeqSpec{Prop: "C10", DiskSize: 1539 + 1 + 10, Alphabet: tiny, After: c10After, Key: key, AllowImplFail: true})
	RegisterSeq("c10.seq.ic6", &SeqSpec{Prop: "C10", DiskSize: 3000, Alphabet: c10Alphabet(), After: c10After, Key: key, ICacheSz: 6})
}

func C10(r *report.Report, tier string) {
	depth := 4
	if tier == "thorough" {
		depth = 5
	}
	r.Only = map[string]bool{"C10": true}
	r.Rule = fmt.Sprintf("breadth-first search to depth %d over the C02 namespace alphabet plus macro-operations (120 files in one directory = more live inodes than the inode cache holds, 40 entries = a directory of two blocks, remove every third entry), refused operations and hole-filling reads, with the inode cache at its real size 100 and scaled to 6, and (depth two less) from the state with the inode table exhausted (32765 live objects, a directory of 1024 blocks), on a disk with 10 free data blocks (allocations that fail half-way), and (depth one less) from a state with a 700-block sparse file that is dropped in every way and whose number is reused; the alphabets include the server's own Crash() (a background free of a 700-block file stops half-way, new instance); in every state (quiescent, flushed): cache/allocator audit against the logical disk, then an exact dump (handle bytes, every attribute incl. times and nlink, READDIR/READDIRPLUS order and cookies, every byte) of the running server must equal the dump of a server recovered from the disk image at that point and the dump after a clean restart on the same disk", depth)
	s1 := RunSeq(r, "c10.seq", depth)
	s2 := RunSeq(r, "c10.seq.ic6", depth)
	s3 := RunSeq(r, "c10.inodes", depth-2)
	s4 := RunSeq(r, "c10.tiny", depth)
	s5 := RunSeq(r, "c10.big", depth-1)
	r.Extra["searches"] = []*SeqSummary{s1, s2, s3, s4, s5}
}
