package checks

import (
	"fmt"
	"sort"

	"verif/fsx"
	"verif/reffs"
	"verif/report"
)

// ---- C08: a file handle denotes one object for ever; stale handles stay stale ----

func c08Alphabet() []fsx.Op {
	var al []fsx.Op
	for _, d := range []string{"root", "root/d"} {
		al = append(al,
			fsx.Op{K: "CREATE", H: d, N: "a"}, fsx.Op{K: "SYMLINK", H: d, N: "b", Target: "t"},
			fsx.Op{K: "REMOVE", H: d, N: "a"}, fsx.Op{K: "REMOVE", H: d, N: "b"})
	}
	al = append(al,
		fsx.Op{K: "MKDIR", H: "root", N: "d"}, fsx.Op{K: "RMDIR", H: "root", N: "d"},
		fsx.Op{K: "MKDIR", H: "root/d", N: "e"}, fsx.Op{K: "RMDIR", H: "root/d", N: "e"},
		fsx.Op{K: "RENAME", H: "root", N: "a", H2: "root/d", N2: "a"}, // kills the target if it exists
		fsx.Op{K: "RENAME", H: "root/d", N: "b", H2: "root", N2: "a"},
		fsx.Op{K: "RESTART"},
		fsx.Op{K: "CRASH"},
	)
	return al
}

// every procedure and handle position, with otherwise valid arguments
func c08Probes(h string) []fsx.Op {
	return []fsx.Op{
		{K: "GETATTR", H: h}, {K: "SETATTR", H: h, NoSize: true, Mtime: 777}, {K: "SETATTR", H: h, NoSize: true, Perm: 1}, {K: "SETATTR", H: h, NoSize: true, Perm: 6}, {K: "SETATTR", H: h, NoSize: true, STime: 3},
		{K: "SETATTR", H: h, NoSize: true}, {K: "SETATTR", H: h, Size: 3}, {K: "LOOKUP", H: h, N: "a"}, {K: "LOOKUP", H: h, N: "."}, {K: "ACCESS", H: h},
		{K: "READLINK", H: h}, {K: "READ", H: h, Off: 0, Cnt: 100}, {K: "WRITE", H: h, Off: 0, Cnt: 5, Pat: 9, Stable: 2}, {K: "WRITE", H: h, Off: 0, Cnt: 0, Len: -1, Pat: 9, Stable: 2}, {K: "WRITE", H: h, Off: 0, Cnt: 0, Len: -1, Pat: 9, Stable: 0}, {K: "READ", H: h, Off: 0, Cnt: 0},
		{K: "CREATE", H: h, N: "probe-c", As: "_"}, {K: "MKDIR", H: h, N: "probe-m", As: "_"}, {K: "SYMLINK", H: h, N: "probe-s", Target: "t", As: "_"},
		{K: "REMOVE", H: h, N: "probe-c"}, {K: "RMDIR", H: h, N: "probe-m"}, {K: "REMOVE", H: h, N: "probe-s"},
		{K: "RENAME", H: h, N: "a", H2: "root", N2: "probe-r1"},         // dead/live handle as source directory
		{K: "RENAME", H: "root", N: "probe-src", H2: h, N2: "probe-r2"}, // as target directory
		{K: "RENAME", H: h, N: "a", H2: h, N2: "probe-r3"},              // as both
		{K: "READDIR", H: h, Cnt: 1 << 16}, {K: "READDIRPLUS", H: h, DirCnt: 1 << 16, MaxCnt: 1 << 16}, {K: "COMMIT", H: h},
		{K: "FSINFO", H: h}, {K: "PATHCONF", H: h},
	}
}

func c08After(w *World, path []fsx.Op, r fsx.Reply, implFail bool, mis *reffs.Mismatch, viol func(sig, detail string)) {
	if mis != nil {
		viol(mis.Rule, mis.Msg)
		return
	}
	w.Model.CheckFsinfoHandle = true
	// every handle ever issued, dead ones first (they must have no effect)
	var dead, live []string
	for fh := range w.Model.Seen {
		if _, ok := w.Model.ByFH[fh]; ok {
			live = append(live, fh)
		} else {
			dead = append(dead, fh)
		}
	}
	sort.Strings(dead)
	sort.Strings(live)
	w.Do(fsx.Op{K: "CREATE", H: "root", N: "probe-src", As: "_"})
	before, _ := fsx.Dump(w.Srv, w.Probe)
	for _, fh := range dead {
		for _, p := range c08Probes("raw:" + fh) {
			rr, _, m := w.Do(p)
			if m != nil {
				viol("dead-handle|"+p.K+"|"+m.Rule, fmt.Sprintf("%s with the handle %s of a removed object: %s (reply %s)", p, fh, m.Msg, rr.Brief()))
				return
			}
		}
	}
	// a dead handle whose inode number is in use again, together with the live handle of that number
	for _, dfh := range dead {
		for _, lfh := range live {
			if dfh[:16] != lfh[:16] || w.Model.Objs[w.Model.ByFH[lfh]].Kind != reffs.DIR {
				continue
			}
			for _, p := range []fsx.Op{
				{K: "RENAME", H: "raw:" + lfh, N: "a", H2: "raw:" + dfh, N2: "probe-x1"},
				{K: "RENAME", H: "raw:" + dfh, N: "a", H2: "raw:" + lfh, N2: "probe-x2"},
				{K: "LINK", H: "raw:" + lfh, H2: "raw:" + dfh, N2: "probe-x3"},
			} {
				rr, _, m := w.Do(p)
				if m != nil {
					viol("dead-handle-same-inum|"+p.K+"|"+m.Rule, fmt.Sprintf("%s (dead handle %s, live handle %s of the same inode number): %s (reply %s)", p, dfh, lfh, m.Msg, rr.Brief()))
					return
				}
			}
		}
	}
	after, _ := fsx.Dump(w.Srv, w.Probe)
	if fsx.DumpString(before) != fsx.DumpString(after) {
		viol("dead-handle|effect", "requests carrying only dead handles changed the file system")
		return
	}
	for _, fh := range live {
		if w.SkipLive[fh] {
			continue // (prepared state with tens of thousands of files: the kept ones and every later one are probed)
		}
		for _, p := range c08Probes("raw:" + fh) {
			if p.K == "SETATTR" && !p.NoSize {
				continue // size changes are C02's business; keep the objects intact for the later probes
			}
			rr, _, m := w.Do(p)
			if m != nil {
				viol("live-handle|"+p.K+"|"+m.Rule, fmt.Sprintf("%s with the live handle %s: %s (reply %s)", p, fh, m.Msg, rr.Brief()))
				return
			}
		}
	}
	if d := w.CompareDump(true); d != "" {
		viol("live-handle|dump", d)
	}
}

// directories replacing directories: link counts of parents decide whether a removed parent's handle dies
func c08InodeAlphabet() []fsx.Op {
	return []fsx.Op{
		{K: "REMOVE", H: "root/bulk", N: "f00000"}, {K: "REMOVE", H: "root/bulk", N: "f16000"}, {K: "REMOVE", H: "root/bulk", N: "f32700"},
		{K: "CREATE", H: "root", N: "n1"}, {K: "MKDIR", H: "root", N: "n2"}, {K: "SYMLINK", H: "root/d", N: "n3", Target: "t"},
		{K: "CREATE", H: "root/bulk", N: "f00000"}, {K: "REMOVE", H: "root", N: "n1"}, {K: "RMDIR", H: "root", N: "n2"},
		{K: "RESTART"},
	}
}

func c08DirAlphabet() []fsx.Op {
	return []fsx.Op{
		{K: "RENAME", H: "root/d", N: "e", H2: "root/d", N2: "f"}, // directory over an empty directory, same parent
		{K: "RENAME", H: "root/d", N: "f", H2: "root/d", N2: "e"},
		{K: "RENAME", H: "root", N: "g", H2: "root", N2: "d"}, // over a directory that may be non-empty (must fail) or empty
		{K: "RMDIR", H: "root/d", N: "e"}, {K: "RMDIR", H: "root/d", N: "f"}, {K: "RMDIR", H: "root", N: "d"}, {K: "RMDIR", H: "root", N: "g"},
		{K: "REMOVE", H: "root/d", N: "e"}, {K: "REMOVE", H: "root", N: "d"}, // REMOVE of a directory (the server accepts it for an empty one)
		{K: "MKDIR", H: "root", N: "d"}, {K: "MKDIR", H: "root/d", N: "e"}, {K: "RESTART"},
	}
}

func init() {
	RegisterSeq("c08.dirs", &SeqSpec{Prop: "C08", DiskSize: 3000, Alphabet: c08DirAlphabet(), After: c08After, Strict: true,
		Setup: []fsx.Op{{K: "MKDIR", H: "root", N: "d"}, {K: "MKDIR", H: "root/d", N: "e"}, {K: "MKDIR", H: "root/d", N: "f"}, {K: "MKDIR", H: "root", N: "g"}}})
	Checks["C08"] = C08
	// the inode table exhausted (32765 files in one directory): numbers can only come from removals, the allocator
	// wraps around, and a request that needs an inode when there is none must fail without a trace
	prepSpecs["inofull"] = &PrepSpec{Disk: 4000, Ops: []fsx.Op{{K: "CREATE", H: "root", N: "a"}, {K: "MKDIR", H: "root", N: "d"},
		{K: "WRITE", H: "root/a", Off: 0, Cnt: 5000, Pat: 0x11, Stable: 2}, {K: "CREATE", H: "root/d", N: "x"},
		{K: "MKDIR", H: "root", N: "bulk"}, {K: "INOFILL", H: "root/bulk", N: "f"},
		{K: "LOOKUP", H: "root/bulk", N: "f00000", As: "root/bulk/f00000"}, {K: "LOOKUP", H: "root/bulk", N: "f16000", As: "root/bulk/f16000"}, {K: "LOOKUP", H: "root/bulk", N: "f32700", As: "root/bulk/f32700"}},
		Keep: []string{"root", "root/a", "root/d", "root/d/x", "root/bulk", "root/bulk/f00000", "root/bulk/f16000", "root/bulk/f32700"}}
	RegisterSeq("c08.inodes", &SeqSpec{Prop: "C08", Prep: "inofull", Alphabet: c08InodeAlphabet(), After: c08After, Strict: true, AllowImplFail: true})
	RegisterSeq("c08.seq", &SeqSpec{Prop: "C08", DiskSize: 3000, Alphabet: c08Alphabet(), After: c08After, Strict: true})
	RegisterSeq("c08.seq.ic2", &SeqSpec{Prop: "C08", DiskSize: 3000, Alphabet: c08Alphabet(), After: c08After, Strict: true, ICacheSz: 2})
}

func C08(r *report.Report, tier string) {
	depth := 5
	if tier == "thorough" {
		depth = 7
	}
	idepth := 2
	if tier == "thorough" {
		idepth = 4
	}
	r.Rule = fmt.Sprintf("breadth-first search to depth %d over create/remove/rename-over/restart/crash-restart cycles (%d symbols; every restart resets the next-fit allocator so that inode numbers are reused at once); in every state every handle ever issued is used in every procedure and handle position (GETATTR, SETATTR, LOOKUP, ACCESS, READLINK, READ, WRITE, CREATE, MKDIR, SYMLINK, REMOVE, RMDIR, RENAME source dir / target dir / both, READDIR, READDIRPLUS, COMMIT, FSINFO, PATHCONF): a dead handle must answer STALE/BADHANDLE and change nothing, a live handle must denote the bound object; every new handle must differ from every handle ever issued; a second search from a tree of nested empty directories over directory-over-directory renames and RMDIRs (parents' link counts); a third search (depth %d) from the state with the inode table exhausted - 32765 files, built through the API - over removals of the lowest / a middle / a high inode, creations of every kind, re-creation of a removed name and restarts: inode numbers can only come from removals and the next-fit allocator wraps around", depth, len(c08Alphabet()), idepth)
	s1 := RunSeq(r, "c08.seq", depth)
	s2 := RunSeq(r, "c08.dirs", depth-1)
	s3 := RunSeq(r, "c08.inodes", idepth)
	// an inode cache of two: generations are re-read from the disk / the journal at nearly every use of a handle
	s4 := RunSeq(r, "c08.seq.ic2", depth-1)
	r.Extra["searches"] = []*SeqSummary{s1, s2, s3, s4}
}
