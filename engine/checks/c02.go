package checks

import (
	"fmt"

	"verif/fsx"
	"verif/reffs"
	"verif/report"
)

// ---- C02: sequential NFSv3 semantics match the reference file system ----

func c02After(w *World, path []fsx.Op, r fsx.Reply, implFail bool, mis *reffs.Mismatch, viol func(sig, detail string)) {
	if mis != nil {
		viol(mis.Rule, mis.Msg+"\nreply: "+r.Brief())
		return
	}
	if v, m, o := w.Sweep(); m != nil {
		viol("after|"+o.K+"|"+m.Rule, fmt.Sprintf("observation %s on %s after the history: %s", o, v, m.Msg))
		return
	}
	if d := w.CompareDump(true); d != "" {
		viol("after|dump", "full dump differs from the reference: "+d)
	}
}

func nsAlphabet() []fsx.Op {
	var al []fsx.Op
	for _, d := range []string{"root", "root/d"} {
		al = append(al,
			fsx.Op{K: "CREATE", H: d, N: "a"},
			fsx.Op{K: "MKDIR", H: d, N: "b"},
			fsx.Op{K: "REMOVE", H: d, N: "a"},
			fsx.Op{K: "RMDIR", H: d, N: "b"},
			fsx.Op{K: "REMOVE", H: d, N: "b"}, // REMOVE applied to a directory (the server accepts it for an empty one)
		)
	}
	al = append(al,
		fsx.Op{K: "MKDIR", H: "root", N: "d"},
		fsx.Op{K: "RMDIR", H: "root", N: "d"},
		fsx.Op{K: "REMOVE", H: "root", N: "d"},
		fsx.Op{K: "RMDIR", H: "root", N: "a"},
		fsx.Op{K: "SYMLINK", H: "root", N: "s", Target: "a/b"},
		fsx.Op{K: "REMOVE", H: "root", N: "s"},
		fsx.Op{K: "RENAME", H: "root", N: "a", H2: "root", N2: "c"},
		fsx.Op{K: "RENAME", H: "root", N: "c", H2: "root/d", N2: "a"},
		fsx.Op{K: "RENAME", H: "root/d", N: "a", H2: "root", N2: "a"},
		fsx.Op{K: "RENAME", H: "root", N: "a", H2: "root", N2: "a"},
		fsx.Op{K: "RENAME", H: "root", N: "b", H2: "root/d", N2: "b"},
		fsx.Op{K: "RENAME", H: "root", N: "a", H2: "root", N2: "b"},
		fsx.Op{K: "RENAME", H: "root", N: "s", H2: "root", N2: "a"},
		fsx.Op{K: "WRITE", H: "root/a", Off: 0, Cnt: 10, Pat: 0x11, Stable: 2},
		fsx.Op{K: "WRITE", H: "root/a", Off: 4090, Cnt: 8200, Pat: 0x22, Stable: 1},
		fsx.Op{K: "WRITE", H: "root/d/a", Off: 100, Cnt: 50, Pat: 0x33, Stable: 0},
		// a write beyond two holes, and a multi-block write that fills holes in front of an allocated block without growing the file
		fsx.Op{K: "WRITE", H: "root/a", Off: 8192, Cnt: 5000, Pat: 0x66, Stable: 2},
		fsx.Op{K: "WRITE", H: "root/a", Off: 0, Cnt: 3 * 4096, Pat: 0x67, Stable: 2},
		fsx.Op{K: "COMMIT", H: "root/d/a", Off: 0, Cnt: 0},
		fsx.Op{K: "SETATTR", H: "root/a", Size: 0},
		fsx.Op{K: "SETATTR", H: "root/a", Size: 100},
		fsx.Op{K: "SETATTR", H: "root/a", Size: 5000},
		fsx.Op{K: "SETATTR", H: "root/a", Size: 4500},                            // together with 5000: shrink and growth inside one block
		fsx.Op{K: "WRITE", H: "root/a", Off: 0, Cnt: 8192, Pat: 0x55, Stable: 2}, // size an exact multiple of the block size
		fsx.Op{K: "SETATTR", H: "root/a", Size: 8192},
		fsx.Op{K: "SETATTR", H: "root/a", NoSize: true, Mtime: 12345, Atime: 678},
		fsx.Op{K: "SETATTR", H: "root/a", NoSize: true, Mtime: 777},        // mtime alone
		fsx.Op{K: "SETATTR", H: "root/a", NoSize: true, Perm: 7, STime: 3}, // mode/uid/gid (ignored by the server) and both times to the server's time
		fsx.Op{K: "SETATTR", H: "root/d", NoSize: true, Atime: 888},        // atime alone, on a directory
		fsx.Op{K: "SETATTR", H: "root/a", NoSize: true, STime: 2},          // atime alone, to the server's time
		fsx.Op{K: "SETATTR", H: "root/d", NoSize: true, STime: 1},          // mtime alone, to the server's time, on a directory
		fsx.Op{K: "SETATTR", H: "root/a", Size: 200, Mtime: 999},           // size and mtime together
		fsx.Op{K: "RESTART"},
		fsx.Op{K: "WRITE", H: "dead:root/a", Off: 0, Cnt: 10, Pat: 0x44, Stable: 2},
		fsx.Op{K: "MKNOD", H: "root", N: "n"},
		fsx.Op{K: "LINK", H: "root/a", H2: "root", N2: "l"},
		fsx.Op{K: "CREATEX", H: "root", N: "x"},
		fsx.Op{K: "FSSTAT", H: "root"},
	)
	return al
}

const maxFile = (8 + 512*512) * 4096

var offBoundaries = []uint64{0, 1, 4095, 4096, 4097, 8*4096 - 1, 8 * 4096, (8+512)*4096 - 1, (8 + 512) * 4096, (8+1024)*4096 - 1, (8+1024)*4096 + 1, maxFile - 4096, maxFile - 1}

func offAlphabet() []fsx.Op {
	var al []fsx.Op
	pat := byte(0x10)
	for _, off := range offBoundaries {
		for _, l := range []uint64{1, 4096, 4097, 3*4096 + 1} {
			pat++
			if pat&0x80 != 0 {
				pat = 0x11
			}
			al = append(al, fsx.Op{K: "WRITE", H: "root/f", Off: off, Cnt: l, Pat: pat, Stable: 2})
		}
	}
	for _, sz := range append(append([]uint64{}, offBoundaries...), maxFile, maxFile+1, 1<<63, 1<<64-1) {
		al = append(al, fsx.Op{K: "SETATTR", H: "root/f", Size: sz})
	}
	al = append(al, fsx.Op{K: "RESTART"})
	return al
}

func nameOfLen(n int, c byte) string {
	b := make([]byte, n)
	for i := range b {
		b[i] = c
	}
	return string(b)
}

// utf8Name: a name of n bytes made of two-byte characters (n/2 characters; one ASCII byte in front if n is odd)
func utf8Name(n int) string {
	s := ""
	if n%2 == 1 {
		s = "u"
	}
	for len(s) < n {
		s += "\u00e9"
	}
	return s
}

func nameAlphabet() []fsx.Op {
	var al []fsx.Op
	al = append(al, fsx.Op{K: "CREATE", H: "root", N: "a"})
	names := []string{}
	for _, l := range []int{0, 1, 2, 111, 112, 113, 255, 256} {
		names = append(names, nameOfLen(l, 'n'))
	}
	// the limit counts bytes, not characters: 112, 113, 114 and 224 bytes in two-byte characters
	names = append(names, utf8Name(112), utf8Name(113), utf8Name(114), utf8Name(224))
	for _, n := range names {
		al = append(al,
			fsx.Op{K: "CREATE", H: "root", N: n},
			fsx.Op{K: "MKDIR", H: "root", N: n},
			fsx.Op{K: "SYMLINK", H: "root", N: n, Target: "t"},
			fsx.Op{K: "LOOKUP", H: "root", N: n, As: "_"},
			fsx.Op{K: "REMOVE", H: "root", N: n},
			fsx.Op{K: "RMDIR", H: "root", N: n},
			fsx.Op{K: "RENAME", H: "root", N: "a", H2: "root", N2: n},
			fsx.Op{K: "RENAME", H: "root", N: n, H2: "root", N2: "a"},
		)
	}
	return al
}

func offProbe() *fsx.Probe {
	return &fsx.Probe{Full: 1 << 20, Windows: offBoundaries}
}

func c02AfterOff(w *World, path []fsx.Op, r fsx.Reply, implFail bool, mis *reffs.Mismatch, viol func(sig, detail string)) {
	w.Probe = offProbe()
	if mis != nil {
		viol(mis.Rule, mis.Msg+"\nreply: "+r.Brief())
		return
	}
	// targeted reads around every boundary (READ replies are checked by the model)
	for _, off := range offBoundaries {
		for _, o := range []fsx.Op{{K: "READ", H: "root/f", Off: off, Cnt: 4097}, {K: "READ", H: "root/f", Off: off, Cnt: 1}} {
			if _, _, m := w.Do(o); m != nil {
				viol("after|"+o.K+"|"+m.Rule, fmt.Sprintf("observation %s after the history: %s", o, m.Msg))
				return
			}
		}
	}
	if _, _, m := w.Do(fsx.Op{K: "GETATTR", H: "root/f"}); m != nil {
		viol("after|GETATTR|"+m.Rule, m.Msg)
		return
	}
	if d := w.CompareDump(true); d != "" {
		viol("after|dump", "full dump differs from the reference: "+d)
	}
}

func init() {
	RegisterSeq("c02.off", &SeqSpec{Prop: "C02", DiskSize: 6000, Setup: []fsx.Op{{K: "CREATE", H: "root", N: "f"}}, Alphabet: offAlphabet(), After: c02AfterOff,
		Key: func(w *World) string { w.Probe = offProbe(); return w.defaultKey() }})
	// a directory of 40 names of the maximal length (five blocks): lookups, creations of existing names, removals and
	// renames after the name cache was rebuilt (restart, abort)
	pad := func(n string) string {
		for len(n) < 112 {
			n += "_"
		}
		return n
	}
	RegisterSeq("c02.longnames", &SeqSpec{Prop: "C02", DiskSize: 3000, After: c02After,
		Setup: []fsx.Op{{K: "MKDIR", H: "root", N: "d"}, {K: "CREATEMANY", H: "root/d", N: "L", Cnt: 40, Len: 112}},
		Alphabet: []fsx.Op{{K: "RESTART"}, {K: "CREATE", H: "root/d", N: pad("L039")}, {K: "LOOKUP", H: "root/d", N: pad("L038"), As: "_"}, {K: "LOOKUP", H: "root/d", N: pad("L000"), As: "_"}, {K: "MKDIR", H: "root/d", N: pad("L020")},
			{K: "REMOVE", H: "root/d", N: pad("L039")}, {K: "REMOVE", H: "root/d", N: pad("L017")}, {K: "RENAME", H: "root/d", N: pad("L001"), H2: "root/d", N2: pad("L038")},
			{K: "CREATE", H: "root/d", N: pad("new")}, {K: "CREATE", H: "root/d", N: nameOfLen(200, 'q')}, {K: "REMOVETHIRD", H: "root/d"}}})
	// a directory of two blocks reduced to a survivor in a chosen slot: emptiness is decided per slot
	RegisterSeq("c02.bigdir", &SeqSpec{Prop: "C02", DiskSize: 3000, After: c02After,
		Setup: []fsx.Op{{K: "MKDIR", H: "root", N: "d"}, {K: "CREATEMANY", H: "root/d", N: "m", Cnt: 40}, {K: "MKDIR", H: "root", N: "e"}},
		Alphabet: []fsx.Op{{K: "KEEPONLY", H: "root/d", N: "m030"}, {K: "KEEPONLY", H: "root/d", N: "m031"}, {K: "KEEPONLY", H: "root/d", N: "m005"}, {K: "KEEPONLY", H: "root/d", N: "m039"},
			{K: "KEEPONLY", H: "root/d", N: "none"}, {K: "RMDIR", H: "root", N: "d"}, {K: "REMOVE", H: "root", N: "d"}, {K: "RENAME", H: "root", N: "e", H2: "root", N2: "d"}, {K: "RESTART"},
			{K: "CREATE", H: "root/d", N: "m030"}, {K: "LOOKUP", H: "root/d", N: "m031", As: "_"}}})
	RegisterSeq("c02.names", &SeqSpec{Prop: "C02", DiskSize: 3000, Alphabet: nameAlphabet(), After: c02After})
	RegisterSeq("c02.ns", &SeqSpec{Prop: "C02", DiskSize: 3000, Alphabet: nsAlphabet(), After: c02After})
	RegisterSeq("c02.ns.xdr", &SeqSpec{Prop: "C02", DiskSize: 3000, Alphabet: nsAlphabet(), After: c02After, ViaXDR: true})
	RegisterSeq("c02.ns.ic2", &SeqSpec{Prop: "C02", DiskSize: 3000, Alphabet: nsAlphabet(), After: c02After, ICacheSz: 2})
	RegisterSeq("c02.ns.nounstable", &SeqSpec{Prop: "C02", DiskSize: 3000, Alphabet: nsAlphabet(), After: c02After, NoUnstable: true})
	Checks["C02"] = C02
}

func C02(r *report.Report, tier string) {
	depth, offDepth, nameDepth := 5, 2, 2
	if tier == "thorough" {
		depth, offDepth, nameDepth = 6, 3, 3
	}
	r.Rule = fmt.Sprintf("breadth-first search over all operation sequences of length <=%d of a %d-symbol namespace/data alphabet on the real server (state = reference model + installed disk content + allocator cursors + inode cache, deduplicated); after every transition: the reply against the reference file system, an observation sweep (LOOKUP of every name incl. . and .., GETATTR, ACCESS, READ, READLINK, READDIR, READDIRPLUS, dead handles) and a full-tree dump comparison incl. handles; the same alphabet once more with every request (incl. the sweep and the dump) XDR-encoded, dispatched by procedure number through the registration table and its reply XDR-decoded; further searches from a directory of 40 names of the maximal length and from a two-block directory reduced to one survivor in a chosen slot (removal of a directory that is not empty); a restart is a clean shutdown without any flush or idle time first (after a COMMIT if unstable writes are outstanding); distinct_nontrivial = distinct states reached", depth, len(nsAlphabet()))
	s1 := RunSeq(r, "c02.ns", depth)
	s2 := RunSeq(r, "c02.ns.nounstable", depth-1)
	s3 := RunSeq(r, "c02.names", nameDepth)
	s4 := RunSeq(r, "c02.off", offDepth)
	s5 := RunSeq(r, "c02.ns.xdr", depth-1)
	s6 := RunSeq(r, "c02.longnames", depth-2)
	s7 := RunSeq(r, "c02.bigdir", depth-2)
	// an inode cache of two: nearly every request finds the inodes of the one before it evicted
	s8 := RunSeq(r, "c02.ns.ic2", depth-1)
	r.Extra["searches"] = []*SeqSummary{s1, s2, s3, s4, s5, s6, s7, s8}
}
