package checks

import (
	"fmt"

	"verif/fsx"
	"verif/reffs"
	"verif/report"
)

// ---- C02: sequential NFSv3 semantics match the reference file system ----

func c02After(w *World, path []fsx.Op, r fsx.Reply, implFail bool, mis *reffs.Mismatch, viol func(sig, detail string)) {
	if mis != nil {
		viol(mis.Rule, mis.Msg+"\nreply: "+r.Brief())
		return
	}
	if v, m, o := w.Sweep(); m != nil {
		viol("after|"+o.K+"|"+m.Rule, fmt.Sprintf("observation %s on %s after the history: %s", o, v, m.Msg))
		return
	}
	if d := w.CompareDump(true); d != "" {
		viol("after|dump", "full dump differs from the reference: "+d)
	}
}

func nsAlphabet() []fsx.Op {
	var al []fsx.Op
	for _, d := range []string{"root", "root/d"} {
		al = append(al,
			fsx.Op{K: "CREATE", H: d, N: "a"},
			fsx.Op{K: "MKDIR", H: d, N: "b"},
			fsx.Op{K: "REMOVE", H: d, N: "a"},
			fsx.Op{K: "RMDIR", H: d, N: "b"},
		)
	}
	al = append(al,
		fsx.Op{K: "MKDIR", H: "root", N: "d"},
		fsx.Op{K: "RMDIR", H: "root", N: "d"},
		fsx.Op{K: "SYMLINK", H: "root", N: "s", Target: "a/b"},
		fsx.Op{K: "REMOVE", H: "root", N: "s"},
		fsx.Op{K: "RENAME", H: "root", N: "a", H2: "root", N2: "c"},
		fsx.Op{K: "RENAME", H: "root", N: "c", H2: "root/d", N2: "a"},
		fsx.Op{K: "RENAME", H: "root/d", N: "a", H2: "root", N2: "a"},
		fsx.Op{K: "RENAME", H: "root", N: "a", H2: "root", N2: "a"},
		fsx.Op{K: "RENAME", H: "root", N: "b", H2: "root/d", N2: "b"},
		fsx.Op{K: "RENAME", H: "root", N: "a", H2: "root", N2: "b"},
		fsx.Op{K: "RENAME", H: "root", N: "s", H2: "root", N2: "a"},
		fsx.Op{K: "WRITE", H: "root/a", Off: 0, Cnt: 10, Pat: 0x11, Stable: 2},
		fsx.Op{K: "WRITE", H: "root/a", Off: 4090, Cnt: 8200, Pat: 0x22, Stable: 1},
		fsx.Op{K: "WRITE", H: "root/d/a", Off: 100, Cnt: 50, Pat: 0x33, Stable: 0},
		fsx.Op{K: "COMMIT", H: "root/d/a", Off: 0, Cnt: 0},
		fsx.Op{K: "SETATTR", H: "root/a", Size: 0},
		fsx.Op{K: "SETATTR", H: "root/a", Size: 100},
		fsx.Op{K: "SETATTR", H: "root/a", Size: 5000},
		fsx.Op{K: "SETATTR", H: "root/a", NoSize: true, Mtime: 12345, Atime: 678},
		fsx.Op{K: "RESTART"},
		fsx.Op{K: "WRITE", H: "dead:root/a", Off: 0, Cnt: 10, Pat: 0x44, Stable: 2},
		fsx.Op{K: "MKNOD", H: "root", N: "n"},
		fsx.Op{K: "LINK", H: "root/a", H2: "root", N2: "l"},
		fsx.Op{K: "CREATEX", H: "root", N: "x"},
		fsx.Op{K: "FSSTAT", H: "root"},
	)
	return al
}

func init() {
	RegisterSeq("c02.ns", &SeqSpec{Prop: "C02", DiskSize: 3000, Alphabet: nsAlphabet(), After: c02After})
	RegisterSeq("c02.ns.nounstable", &SeqSpec{Prop: "C02", DiskSize: 3000, Alphabet: nsAlphabet(), After: c02After, NoUnstable: true})
	Checks["C02"] = C02
}

func C02(r *report.Report, tier string) {
	depth := 4
	if tier == "thorough" {
		depth = 5
	}
	r.Rule = fmt.Sprintf("breadth-first search over all operation sequences of length <=%d of a %d-symbol namespace/data alphabet on the real server (state = reference model + installed disk content + allocator cursors + inode cache, deduplicated); after every transition: the reply against the reference file system, an observation sweep (LOOKUP of every name incl. . and .., GETATTR, ACCESS, READ, READLINK, READDIR, READDIRPLUS, dead handles) and a full-tree dump comparison incl. handles; distinct_nontrivial = distinct states reached", depth, len(nsAlphabet()))
	s1 := RunSeq(r, "c02.ns", depth)
	r.Extra["searches"] = []*SeqSummary{s1}
}
