package checks

import (
	"encoding/json"
	"fmt"
	"sort"

	"github.com/mit-pdos/go-journal/vrt"
	"verif/fsx"
	"verif/par"
	"verif/report"
)

// ---- C13: directory enumeration is complete, duplicate-free and terminates ----

type c13Shape struct {
	Name    string `json:"name"`
	N       int    `json:"n"`             // entries created
	NameLen int    `json:"name_len"`      // 1 -> short names, else padded to this length
	Holes   string `json:"holes"`         // "", "3,4" (remove the 3rd and 4th), "alt" (every other), "fifth" (every fifth)
	Big     bool   `json:"big,omitempty"` // a directory of hundreds or thousands of entries: a short list of limits instead of the dense grids
}

func c13Shapes(tier string) []c13Shape {
	s := []c13Shape{
		{"empty", 0, 4, "", false}, {"one", 1, 4, "", false}, {"two", 2, 4, "", false}, {"five", 5, 4, "", false}, {"five-holes", 5, 4, "3,4", false},
		{"thirty", 30, 4, "", false}, {"thirtyone", 31, 4, "", false}, {"thirtythree", 33, 4, "", false}, {"seventy-alt", 70, 4, "alt", false}, {"five-long", 5, 111, "", false}, {"five-max", 5, 112, "", false},
	}
	// directories whose own block tree goes beyond the direct blocks (8 blocks = 256 entries) and beyond the
	// indirect block (520 blocks = 16640 entries)
	s = append(s, c13Shape{Name: "threehundred-fifth", N: 300, NameLen: 4, Holes: "fifth", Big: true})
	if tier == "thorough" {
		s = append(s, c13Shape{"thirtytwo", 32, 4, "", false}, c13Shape{"seventy", 70, 4, "", false}, c13Shape{"thirtythree-long", 33, 111, "", false},
			c13Shape{Name: "threehundred", N: 300, NameLen: 4, Big: true}, c13Shape{Name: "seventeen-thousand-fifth", N: 17000, NameLen: 4, Holes: "fifth", Big: true})
	}
	return s
}

func (s c13Shape) names() []string {
	var out []string
	for i := 0; i < s.N; i++ {
		n := fmt.Sprintf("e%03d", i)
		if s.N > 1000 {
			n = fmt.Sprintf("e%05d", i)
		}
		if s.NameLen > 4 {
			n += nameOfLen(s.NameLen-4, 'x')
		}
		out = append(out, n)
	}
	return out
}

func (s c13Shape) removed(i int) bool {
	switch s.Holes {
	case "3,4":
		return i == 2 || i == 3
	case "alt":
		return i%2 == 1
	case "fifth":
		return i%5 == 2
	}
	return false
}

type c13Res struct {
	Calls        int64               `json:"calls"`
	Enumerations int64               `json:"enumerations"`
	Mutations    int64               `json:"mutations"`
	Viols        []*report.Violation `json:"viols"`
	Pages        map[string]int64    `json:"pages"` // distinct page counts seen
}

// one page-by-page enumeration; mutate(pageIndex, listedSoFar) is called after each page
var c13PageCap = 80

func c13Enumerate(w *World, plus bool, count, dircount, maxcount uint32, mutate func(page int, listed map[string]bool), out *c13Res) (map[string]int, []uint64, string) {
	seen := map[string]int{}
	var cookies []uint64
	cookie := uint64(0)
	for page := 0; ; page++ {
		if page > c13PageCap {
			return seen, cookies, fmt.Sprintf("enumeration did not end within %d calls", c13PageCap)
		}
		var op fsx.Op
		if plus {
			op = fsx.Op{K: "READDIRPLUS", H: "root/dir", Cookie: cookie, DirCnt: dircount, MaxCnt: maxcount}
		} else {
			op = fsx.Op{K: "READDIR", H: "root/dir", Cookie: cookie, Cnt: uint64(count)}
		}
		r, _, mis := w.Do(op)
		out.Calls++
		if mis != nil {
			return seen, cookies, "reply disagrees with LOOKUP/GETATTR of the named objects: " + mis.Rule + ": " + mis.Msg
		}
		if len(r.Ents) == 0 && !r.Eof {
			return seen, cookies, fmt.Sprintf("call %d (cookie %d) returned no entry and no end-of-directory", page, cookie)
		}
		for _, e := range r.Ents {
			seen[e.Name]++
			cookies = append(cookies, e.Cookie)
		}
		if r.Eof {
			out.Pages[fmt.Sprint(page+1)]++
			return seen, cookies, ""
		}
		nc := r.Ents[len(r.Ents)-1].Cookie
		if nc == cookie && page > 0 {
			return seen, cookies, fmt.Sprintf("no progress: cookie %d returned again", cookie)
		}
		cookie = nc
		if mutate != nil {
			listed := map[string]bool{}
			for n := range seen {
				listed[n] = true
			}
			mutate(page, listed)
		}
	}
}

func c13Job(raw json.RawMessage) (interface{}, error) {
	var s c13Shape
	json.Unmarshal(raw, &s)
	out := &c13Res{Pages: map[string]int64{}}
	base := cachedMkfs(3000)
	c13PageCap = 80
	if s.Big {
		c13PageCap = s.N + 10 // (every call returns at least one entry)
		if s.N > 1000 {
			base = cachedMkfs(8000)
		}
	}
	viol := func(sig, detail string) {
		if len(out.Viols) < 20 {
			out.Viols = append(out.Viols, &report.Violation{Property: "C13", Sig: sig, Detail: fmt.Sprintf("directory shape %s (%d entries, holes %q, name length %d)\n%s", s.Name, s.N, s.Holes, s.NameLen, detail),
				Replay: map[string]interface{}{"job": "c13", "arg": s}})
		}
	}
	build := func() (*World, map[string]bool) {
		w := NewWorld(base)
		// recycle a few inode numbers first, so that generations differ between the directory and its entries
		for _, n := range []string{"t1", "t2", "t3"} {
			w.Do(fsx.Op{K: "CREATE", H: "root", N: n})
		}
		for _, n := range []string{"t1", "t2", "t3"} {
			w.Do(fsx.Op{K: "REMOVE", H: "root", N: n})
		}
		w.Do(fsx.Op{K: "RESTART"})
		w.Do(fsx.Op{K: "MKDIR", H: "root", N: "dir"})
		present := map[string]bool{".": true, "..": true}
		for i, n := range s.names() {
			k := "CREATE"
			if i%7 == 3 {
				k = "MKDIR"
			}
			w.Do(fsx.Op{K: k, H: "root/dir", N: n, As: "_"})
			present[n] = true
		}
		for i, n := range s.names() {
			if s.removed(i) {
				k := "REMOVE"
				if i%7 == 3 {
					k = "RMDIR"
				}
				w.Do(fsx.Op{K: k, H: "root/dir", N: n})
				delete(present, n)
			}
		}
		return w, present
	}
	check := func(what string, seen map[string]int, must map[string]bool, may map[string]bool) bool {
		for n, c := range seen {
			if c > 1 {
				viol("duplicate|"+what, fmt.Sprintf("%s: entry %q returned %d times", what, short13(n), c))
				return false
			}
			if !must[n] && !may[n] {
				viol("phantom|"+what, fmt.Sprintf("%s: entry %q was never in the directory", what, short13(n)))
				return false
			}
		}
		for n := range must {
			if seen[n] == 0 {
				viol("missing|"+what, fmt.Sprintf("%s: entry %q, present throughout, was not returned", what, short13(n)))
				return false
			}
		}
		return true
	}
	nl := s.NameLen
	if nl < 4 {
		nl = 4
	}
	type lim struct {
		plus    bool
		c, d, m uint32
	}
	var lims []lim
	for c := 0; c <= 64+(24+nl)*13; c++ {
		lims = append(lims, lim{false, uint32(c), 0, 0})
	}
	lims = append(lims, lim{false, 4096, 0, 0}, lim{false, 1<<32 - 1, 0, 0})
	for d := 0; d <= 3*(8+nl)+1; d++ {
		for m := 0; m <= 64+4*(176+nl)+1; m += 1 {
			if d > 12 && m > 70 && m%8 > 2 && (m-64)%(176+nl) > 3 && (m-64)%(176+nl) < 176+nl-3 {
				continue // steps of 8 away from the thresholds
			}
			lims = append(lims, lim{true, 0, uint32(d), uint32(m)})
		}
	}
	for _, d := range []uint32{1 << 20, 1<<32 - 1} {
		for _, m := range []uint32{0, 1, 100, 1000, 1 << 20, 1<<32 - 1} {
			lims = append(lims, lim{true, 0, d, m}, lim{true, 0, uint32(m), d})
		}
	}
	if s.Big {
		lims = nil
		for _, c := range []uint32{100, 512, 4096, 8192, 1 << 20, 1<<32 - 1} {
			if s.N > 1000 && c < 8192 {
				continue
			}
			lims = append(lims, lim{false, c, 0, 0})
		}
		for _, dm := range [][2]uint32{{1 << 20, 4096}, {512, 1 << 20}, {8192, 32768}, {65536, 65536}, {1 << 20, 1 << 20}} {
			if s.N > 1000 && dm[0] < 8192 {
				continue
			}
			lims = append(lims, lim{true, 0, dm[0], dm[1]})
		}
	}
	var multi []lim // limits that give 2..12 pages, for the mutation tests
	res := vrt.Run(vrt.Config{Horizon: 200_000_000}, func() {
		w, present := build()
		allCookies := map[uint64]bool{}
		for _, l := range lims {
			what := fmt.Sprintf("READDIR(count=%d)", l.c)
			if l.plus {
				what = fmt.Sprintf("READDIRPLUS(dircount=%d,maxcount=%d)", l.d, l.m)
			}
			before := out.Calls
			seen, cookies, err := c13Enumerate(w, l.plus, l.c, l.d, l.m, nil, out)
			out.Enumerations++
			if err != "" {
				viol("enumeration|"+errClass(err), what+": "+err)
				return
			}
			if !check(what, seen, present, nil) {
				return
			}
			for _, c := range cookies {
				allCookies[c] = true
			}
			if pages := out.Calls - before; pages >= 2 && pages <= 12 && len(multi) < 40 {
				multi = append(multi, l)
			}
		}
		// every cookie ever returned can be passed back
		var cs []uint64
		for c := range allCookies {
			cs = append(cs, c)
		}
		sort.Slice(cs, func(i, j int) bool { return cs[i] < cs[j] })
		if s.Big && len(cs) > 60 {
			// (a listing of the rest of a big directory per cookie: the first and last three and every n-th in between)
			var pick []uint64
			step := len(cs) / 40
			for i, c := range cs {
				if i < 3 || i >= len(cs)-3 || i%step == 0 {
					pick = append(pick, c)
				}
			}
			cs = pick
		}
		for _, c := range cs {
			for _, plus := range []bool{false, true} {
				// (limits large enough for the rest of the directory in one reply)
				op := fsx.Op{K: "READDIR", H: "root/dir", Cookie: c, Cnt: 1 << 30}
				if plus {
					op = fsx.Op{K: "READDIRPLUS", H: "root/dir", Cookie: c, DirCnt: 1 << 30, MaxCnt: 1 << 30}
				}
				r, _, mis := w.Do(op)
				out.Calls++
				if mis != nil || !r.OK() || !r.Eof {
					viol("cookie-reuse", fmt.Sprintf("%s: %v status %d eof %v", op, mis, r.Status, r.Eof))
					return
				}
			}
		}
	})
	if v := VerdictViolation(&res, "C13", s.Name); v != nil {
		viol(v.Sig, v.Detail)
		return out, nil
	}
	// mutations between pages
	for _, l := range multi {
		if len(out.Viols) > 0 {
			break
		}
		for kind := 0; kind < 3; kind++ {
			for at := 0; at < 12; at++ {
				done := false
				res := vrt.Run(vrt.Config{Horizon: 200_000_000}, func() {
					w, present := build()
					must := map[string]bool{}
					for n := range present {
						must[n] = true
					}
					may := map[string]bool{}
					mutated := false
					seen, _, err := c13Enumerate(w, l.plus, l.c, l.d, l.m, func(page int, listed map[string]bool) {
						if page != at || mutated {
							return
						}
						mutated = true
						switch kind {
						case 0: // add a new name (reuses the first free slot)
							w.Do(fsx.Op{K: "CREATE", H: "root/dir", N: "zz-added", As: "_"})
							may["zz-added"] = true
						case 1, 2: // remove a listed / a not-yet-listed name
							var cands []string
							for n := range present {
								if n != "." && n != ".." && listed[n] == (kind == 1) {
									cands = append(cands, n)
								}
							}
							sort.Strings(cands)
							if len(cands) == 0 {
								return
							}
							n := cands[len(cands)/2]
							r, _, _ := w.Do(fsx.Op{K: "REMOVE", H: "root/dir", N: n})
							if !r.OK() {
								w.Do(fsx.Op{K: "RMDIR", H: "root/dir", N: n})
							}
							delete(must, n)
							may[n] = true
						}
					}, out)
					out.Mutations++
					if !mutated {
						done = true
						return
					}
					what := fmt.Sprintf("mutation kind %d after page %d of plus=%v count=%d dircount=%d maxcount=%d", kind, at, l.plus, l.c, l.d, l.m)
					if err != "" {
						viol("mutation|enumeration|"+errClass(err), what+": "+err)
						return
					}
					check("mutation", seen, must, may)
				})
				if v := VerdictViolation(&res, "C13", s.Name); v != nil {
					viol(v.Sig, v.Detail)
				}
				if done {
					break
				}
			}
		}
	}
	return out, nil
}

func short13(n string) string {
	if len(n) > 16 {
		return fmt.Sprintf("%s..[%d]", n[:6], len(n))
	}
	return n
}

func errClass(e string) string {
	for i, c := range e {
		if c == ':' || c == '(' || (c >= '0' && c <= '9') {
			return e[:i]
		}
	}
	return e
}

func init() {
	Checks["C13"] = C13
	par.Register("c13", c13Job)
}

func C13(r *report.Report, tier string) {
	shapes := c13Shapes(tier)
	r.Rule = "per directory shape (empty, 1/2/5 entries, freed slots in the middle, 30/31/32/33/70 entries around the block boundary, every other entry removed, names of 4, 111 and 112 (= name_max) bytes): READDIR with every count from 0 to 64+13*(24+len) plus 4096 and 2^32-1, READDIRPLUS over a dircount x maxcount grid (step 1 near the reply-size thresholds, step 8 elsewhere, plus extremes); for each: the client loop passing back the last cookie until end-of-directory (hard cap of 80 calls); every call returns an entry or eof and makes progress; every entry present throughout is returned exactly once, nothing twice, nothing that never existed; file ids / handles / attributes equal LOOKUP+GETATTR (checked by the reference model); every cookie ever returned is passed back once more; for limits that yield 2..12 pages, at every page boundary one of {add a name, remove a listed name, remove a not-yet-listed name}; plus directories whose own block tree passes the direct blocks (300 entries, every fifth removed; thorough: also 300 without holes and 17000 entries = into the double-indirect tree) with a short list of limits (page cap = number of entries)"
	var jobs []interface{}
	for _, s := range shapes {
		jobs = append(jobs, s)
	}
	par.Map("c13", jobs, par.Options{Deadline: Deadline}, func(i int, res *par.Result) {
		if res.Skipped {
			r.Exhaustive = false
			r.Add("jobs_not_run_time_budget", 1)
			return
		}
		if res.Crashed || res.Err != "" {
			r.Violate(report.Violation{Sig: "worker-died|" + shapes[i].Name, Detail: res.Err + tail(res.Stderr, 2000), Replay: map[string]interface{}{"job": "c13", "arg": shapes[i]}})
			return
		}
		var x c13Res
		json.Unmarshal(res.Out, &x)
		r.Add("transitions", x.Calls)
		r.Add("traces_validated_against_impl", x.Enumerations+x.Mutations)
		r.Add("enumerations", x.Enumerations)
		r.Add("mutation_runs", x.Mutations)
		r.Add("states", 1)
		for p := range x.Pages {
			r.Distinct(shapes[i].Name + "|pages=" + p)
		}
		for _, v := range x.Viols {
			r.Violate(*v)
		}
		r.Sample(map[string]interface{}{"shape": shapes[i], "enumerations": x.Enumerations, "calls": x.Calls, "distinct_page_counts": len(x.Pages)})
	})
}
