package checks

import (
	"fmt"
	"sort"
	"strings"
	"sync"

	"github.com/mit-pdos/go-journal/addr"
	"github.com/mit-pdos/go-journal/common"
	"github.com/mit-pdos/go-journal/vrt"
	"github.com/mit-pdos/go-nfsd/inode"
	"github.com/mit-pdos/go-nfsd/nfs"
	"github.com/mit-pdos/go-nfsd/nfstypes"
	"verif/fsck"
	"verif/fsx"
	"verif/reffs"
	"verif/vdisk"
)

// World is one server instance on a recording disk together with the reference
// model and the handle variables.  All methods must run inside vrt.Run.
type World struct {
	Disk           *vdisk.Disk
	Srv            *nfs.Nfs
	Vars           *fsx.Vars
	Model          *reffs.FS
	Unstable       bool
	Probe          *fsx.Probe
	NOps           int
	Mark           bool   // emit inv/ack markers into the disk trace
	Pending        bool   // unstable data not yet flushed
	FreshB, FreshI uint64 // free counts of the freshly formatted file system
	ViaXDR         bool   // requests go through XDR encoding and the registration table (C02 transport search)
	// SkipLive: live handles (of a prepared state with tens of thousands of objects) that per-handle probes leave out
	SkipLive map[string]bool
	// ReqHorizon: if set, every single request gets this many scheduling points (more is a loop that never ends)
	ReqHorizon int
}

// Prepared is a state that is expensive to reach (e.g. the inode table exhausted: 32765 creates), built once
// per process through the API with the reference model following, and then cloned: image + model + bindings.
type Prepared struct {
	Img            *vdisk.Image
	Model          *reffs.FS
	Vars           *fsx.Vars
	FreshB, FreshI uint64
	Skip           map[string]bool
}

type PrepSpec struct {
	Disk uint64
	Ops  []fsx.Op
	Keep []string // names (variables) whose handles stay in the per-handle probes
}

var prepSpecs = map[string]*PrepSpec{}
var prepCache sync.Map

// prepared must be called outside vrt.Run.
func prepared(name string) *Prepared {
	if v, ok := prepCache.Load(name); ok {
		return v.(*Prepared)
	}
	spec := prepSpecs[name]
	if spec == nil {
		panic("unknown prepared state " + name)
	}
	img := cachedMkfs(spec.Disk)
	p := &Prepared{Skip: map[string]bool{}}
	res := vrt.Run(vrt.Config{Horizon: 4_000_000_000}, func() {
		w := NewWorld(img)
		w.Disk.Record = false
		w.Model.AllowImplFail = true
		for _, o := range spec.Ops {
			if _, _, mis := w.Do(o); mis != nil {
				panic(fmt.Sprintf("prepared state %s: %s: %v", name, o, mis))
			}
		}
		w.Flush()
		vrt.Quiesce()
		w.Srv.ShutdownNfs()
		p.Img, p.Model, p.Vars, p.FreshB, p.FreshI = w.Disk.Snapshot().Flatten(), w.Model, w.Vars, w.FreshB, w.FreshI
		keep := map[string]bool{}
		for _, k := range spec.Keep {
			if h, ok := w.Vars.Live[k]; ok {
				keep[fmt.Sprintf("%x", h)] = true
			}
		}
		if len(w.Model.ByFH) > 500 {
			for fh := range w.Model.ByFH {
				if !keep[fh] {
					p.Skip[fh] = true
				}
			}
		}
	})
	if res.Verdict != vrt.VOK {
		panic(fmt.Sprintf("prepared state %s: %s %s", name, vrt.VerdictNames[res.Verdict], res.Msg))
	}
	prepCache.Store(name, p)
	return p
}

// World starts a server on a copy of the prepared state (inside vrt.Run).
func (p *Prepared) World() *World {
	w := &World{Disk: vdisk.New(p.Img), Vars: p.Vars.Clone(), Model: p.Model.Clone(), Unstable: true, Probe: fsx.DefaultProbe,
		FreshB: p.FreshB, FreshI: p.FreshI, SkipLive: p.Skip}
	w.Srv = nfs.MakeNfs(w.Disk)
	return w
}

// api is what requests are sent to: the server itself or the XDR proxy in front of it.
func (w *World) api() nfstypes.NFS_PROGRAM_NFS_V3_handler {
	if w.ViaXDR {
		return fsx.NewXDRProxy(w.Srv)
	}
	return w.Srv
}

func NewWorld(img *vdisk.Image) *World {
	w := &World{Disk: vdisk.New(img), Vars: fsx.NewVars(), Model: reffs.New(), Unstable: true, Probe: fsx.DefaultProbe}
	w.Srv = nfs.MakeNfs(w.Disk)
	w.FreshB, w.FreshI = w.FreeCounts()
	return w
}

// DeleteAll removes everything below the root through the API (post-order walk of the model).
func (w *World) DeleteAll() *reffs.Mismatch {
	var walk func(o *reffs.Obj) *reffs.Mismatch
	walk = func(o *reffs.Obj) *reffs.Mismatch {
		var names []string
		for n := range o.Children {
			names = append(names, n)
		}
		sort.Strings(names)
		for _, n := range names {
			c := w.Model.Objs[o.Children[n]]
			k := "REMOVE"
			if c.Kind == reffs.DIR {
				if m := walk(c); m != nil {
					return m
				}
				k = "RMDIR"
			}
			if _, _, m := w.Do(fsx.Op{K: k, H: "raw:" + o.FH, N: n}); m != nil {
				return m
			}
		}
		return nil
	}
	m := walk(w.Model.Objs[w.Model.Root])
	for k := range w.Vars.Live {
		if k != "root" {
			w.Vars.Kill(k)
		}
	}
	return m
}

// MkfsImage formats a disk of the given size with the real code and returns
// the resulting image (after a clean shutdown: everything installed).
func MkfsImage(size uint64) *vdisk.Image {
	var img *vdisk.Image
	res := vrt.Run(vrt.Config{}, func() {
		d := vdisk.New(vdisk.NewImage(size))
		d.Record = false
		srv := nfs.MakeNfs(d)
		vrt.Quiesce()
		srv.ShutdownNfs()
		img = d.Snapshot().Flatten()
	})
	if res.Verdict != vrt.VOK {
		panic(fmt.Sprintf("mkfs(%d): %s %s", size, vrt.VerdictNames[res.Verdict], res.Msg))
	}
	return img
}

func (w *World) resolve(ref string) ([]byte, bool) {
	if ref == "" {
		return nil, true
	}
	h, ok := w.Vars.Resolve(ref)
	if !ok {
		return nil, false
	}
	if strings.HasPrefix(ref, "raw:") || strings.HasPrefix(ref, "dead:") {
		return h, true
	}
	return h, true
}

// Enabled: every handle variable the operation names is bound.
func (w *World) Enabled(o fsx.Op) bool {
	_, ok1 := w.resolve(o.H)
	_, ok2 := w.resolve(o.H2)
	return ok1 && ok2
}

func (w *World) Flush() {
	w.Srv.VerifFsState().Txn.Flush()
	w.Pending = false
}

func (w *World) Restart() {
	// a clean shutdown: a client that has unstable writes outstanding COMMITs first (the flush); everything
	// acknowledged with stable semantics must survive the restart without any further flush
	// (no quiescence first either: the journal's logger gets no extra turn to write out what a request left behind)
	if w.Pending {
		w.Flush()
	}
	w.Srv.ShutdownNfs()
	w.Srv = mkNfs(w.Disk)
	w.Srv.Unstable = w.Unstable
}

// CrashRestart abandons the running server and starts a new one on the
// current disk content (as if everything issued so far had reached the disk).
func (w *World) CrashRestart() {
	w.Flush()
	img := w.Disk.Snapshot()
	log := w.Disk.Log
	w.Disk = vdisk.New(img)
	w.Disk.Log = log
	w.Srv = mkNfs(w.Disk)
	w.Srv.Unstable = w.Unstable
}

// Do executes one operation against the server and steps the model.
func (w *World) Do(o fsx.Op) (r fsx.Reply, implFail bool, mis *reffs.Mismatch) {
	w.NOps++
	switch o.K {
	case "RESTART":
		w.Restart()
		return
	case "CRASH":
		w.CrashRestart()
		return
	case "FLUSH":
		w.Flush()
		return
	case "SHRINKCRASH":
		// the server's own Crash(): a background shrinker stops after the transaction it is in (a large file is left
		// half-freed), then shutdown; a new server instance on the same disk
		w.Flush()
		w.Srv.Crash()
		w.Srv = mkNfs(w.Disk)
		w.Srv.Unstable = w.Unstable
		return
	case "DELETEALL":
		mis = w.DeleteAll()
		return
	case "FILL":
		// consume every free block with a filler file (one block per WRITE until NOSPC)
		if _, ok := w.Vars.Live["root/filler"]; !ok {
			if rr, _, m := w.Do(fsx.Op{K: "CREATE", H: "root", N: "filler"}); m != nil || !rr.OK() {
				return rr, false, m
			}
		}
		h, _ := w.resolve("root/filler")
		id := w.Model.ByFH[fmt.Sprintf("%x", h)]
		for i := 0; i < 5000; i++ {
			off := (w.Model.Objs[id].Size + 4095) / 4096 * 4096
			rr, _, m := w.Do(fsx.Op{K: "WRITE", H: "root/filler", Off: off, Cnt: 4096, Pat: 0x66, Stable: 2})
			if m != nil {
				return rr, false, m
			}
			if !rr.OK() {
				break
			}
		}
		return
	case "INOFILL":
		// create files in the directory until the server refuses (inode table exhausted)
		for i := 0; i < 40000; i++ {
			rr, _, m := w.Do(fsx.Op{K: "CREATE", H: o.H, N: fmt.Sprintf("%s%05d", o.N, i), As: "_"})
			if m != nil {
				return rr, false, m
			}
			if !rr.OK() {
				break
			}
		}
		return
	case "FAILMANY":
		// many requests in a row that fail after having modified something (a name that is too long: the inode is
		// allocated first) - the aborts drop cached inodes again and again within one server instance
		for i := 0; i < int(o.Cnt); i++ {
			k := []string{"MKDIR", "CREATE", "SYMLINK"}[i%3]
			if _, _, m := w.Do(fsx.Op{K: k, H: o.H, N: nameOfLen(200+i%7, 'f'), Target: "t", As: "_"}); m != nil {
				return r, false, m
			}
		}
		return
	case "CREATEMANY":
		for i := 0; i < int(o.Cnt); i++ {
			name := fmt.Sprintf("%s%03d", o.N, i)
			if o.Len > 0 { // names padded to the given length
				for int64(len(name)) < o.Len {
					name += "_"
				}
			}
			if _, _, m := w.Do(fsx.Op{K: "CREATE", H: o.H, N: name, As: "_"}); m != nil {
				return r, false, m
			}
		}
		return
	case "KEEPONLY":
		// remove every non-directory entry of the directory except the one named
		h, _ := w.resolve(o.H)
		id, ok := w.Model.ByFH[fmt.Sprintf("%x", h)]
		if !ok {
			return
		}
		var names []string
		for n, c := range w.Model.Objs[id].Children {
			if w.Model.Objs[c].Kind != reffs.DIR && n != o.N {
				names = append(names, n)
			}
		}
		sort.Strings(names)
		for _, n := range names {
			if _, _, m := w.Do(fsx.Op{K: "REMOVE", H: o.H, N: n}); m != nil {
				return r, false, m
			}
		}
		return
	case "REMOVETHIRD":
		h, _ := w.resolve(o.H)
		id, ok := w.Model.ByFH[fmt.Sprintf("%x", h)]
		if !ok {
			return
		}
		var names []string
		for n, c := range w.Model.Objs[id].Children {
			if w.Model.Objs[c].Kind != reffs.DIR {
				names = append(names, n)
			}
		}
		sort.Strings(names)
		for i, n := range names {
			if i%3 == 0 {
				if _, _, m := w.Do(fsx.Op{K: "REMOVE", H: o.H, N: n}); m != nil {
					return r, false, m
				}
			}
		}
		return
	}
	h, _ := w.resolve(o.H)
	h2, _ := w.resolve(o.H2)
	if w.Mark {
		w.Disk.Mark("inv", w.NOps, 0)
	}
	if w.ReqHorizon > 0 {
		vrt.SetHorizon(vrt.Steps() + w.ReqHorizon)
	}
	r = fsx.Exec(w.api(), o, h, h2)
	if w.ReqHorizon > 0 {
		vrt.SetHorizon(vrt.Steps() + 100_000_000)
	}
	if w.Mark {
		// an acknowledgement has stable semantics if the request succeeded, changed
		// something (or was a COMMIT) and was not an UNSTABLE write
		stable := 0
		if r.OK() {
			switch o.K {
			case "CREATE", "MKDIR", "SYMLINK", "REMOVE", "RMDIR", "SETATTR", "COMMIT":
				stable = 1
			case "RENAME":
				if !(o.H == o.H2 && o.N == o.N2) {
					stable = 1
				}
			case "WRITE":
				if r.Committed != 0 && r.Count > 0 {
					stable = 1
				}
			}
		}
		w.Disk.Mark("ack", w.NOps, stable)
	}
	implFail, mis = w.Model.Step(o, h, h2, &r)
	if mis != nil || !r.OK() {
		return
	}
	switch o.K {
	case "CREATE", "MKDIR", "SYMLINK":
		if r.FH != nil {
			w.Vars.Bind(o.BindName(), r.FH)
		}
	case "LOOKUP":
		if o.As != "" {
			w.Vars.Bind(o.As, r.FH)
		}
	case "REMOVE", "RMDIR":
		w.Vars.Kill(o.H + "/" + o.N)
	case "RENAME":
		from, to := o.H+"/"+o.N, o.H2+"/"+o.N2
		if from != to {
			w.Vars.Kill(to)
			mv := map[string]string{}
			for k := range w.Vars.Live {
				if k == from || strings.HasPrefix(k, from+"/") {
					mv[k] = to + k[len(from):]
				}
			}
			for k, nk := range mv {
				w.Vars.Live[nk] = w.Vars.Live[k]
				delete(w.Vars.Live, k)
			}
		}
	case "WRITE":
		if r.Committed == 0 {
			w.Pending = true
		}
	}
	return
}

// logical block reader of the running server (log-aware)
func (w *World) logicalGet() func(uint64) []byte {
	st := w.Srv.VerifFsState()
	return func(a uint64) []byte {
		return st.Txn.Load(addr.MkAddr(a, 0), common.NBITBLOCK).Data
	}
}

// Fsck runs the structural check on the running server's logical disk.
func (w *World) Fsck() *fsck.Result {
	return fsck.Check(w.logicalGet(), w.Disk.Size())
}

// WaitShrinkers lets background frees finish (scheduler waiting, no sleeping).
func (w *World) WaitShrinkers() {
	vrt.Quiesce()
}

// Audit: allocators and caches of the running server agree with its logical disk.
func (w *World) Audit(fr *fsck.Result) []string {
	var errs []string
	st := w.Srv.VerifFsState()
	get := w.logicalGet()
	L := fr.Layout
	bb := st.Balloc.VerifBitmap()
	for i := uint64(0); i < L.NBlockBitmap; i++ {
		blk := get(L.BlockBitmap + i)
		for j := 0; j < fsck.BS; j++ {
			if bb[i*fsck.BS+uint64(j)] != blk[j] {
				errs = append(errs, fmt.Sprintf("balloc-differs-from-disk: in-memory block allocator byte %d is %#x, on-disk bitmap has %#x (blocks %d..%d)", i*fsck.BS+uint64(j), bb[i*fsck.BS+uint64(j)], blk[j], (i*fsck.BS+uint64(j))*8, (i*fsck.BS+uint64(j))*8+7))
				break
			}
		}
	}
	ib := st.Ialloc.VerifBitmap()
	if uint64(len(bb)) != L.NBlockBitmap*fsck.BS {
		errs = append(errs, fmt.Sprintf("balloc-differs-from-disk: the in-memory block allocator covers %d bitmap bytes, the disk has %d bitmap block(s)", len(bb), L.NBlockBitmap))
	}
	if len(ib) != fsck.BS {
		errs = append(errs, fmt.Sprintf("ialloc-differs-from-disk: the in-memory inode allocator covers %d bitmap bytes (%d numbers), the inode bitmap is one block (%d numbers)", len(ib), len(ib)*8, fsck.BS*8))
	}
	iblk := get(L.InodeBitmap)
	for j := 0; j < fsck.BS; j++ {
		if ib[j] != iblk[j] {
			errs = append(errs, fmt.Sprintf("ialloc-differs-from-disk: in-memory inode allocator byte %d is %#x, on-disk bitmap has %#x", j, ib[j], iblk[j]))
			break
		}
	}
	// inode cache and name caches
	st.Icache.VerifEach(func(id uint64, obj interface{}) {
		if obj == nil {
			return
		}
		ip := obj.(*inode.Inode)
		a := L.InodeStart + id/32
		raw := get(a)[(id%32)*128 : (id%32+1)*128]
		d := fsck.DecodeInode(raw, id)
		blks := ip.VerifBlks()
		same := uint32(ip.Kind) == d.Kind && ip.Nlink == d.Nlink && ip.Gen == d.Gen && ip.Size == d.Size && ip.ShrinkSize == d.ShrinkSize &&
			uint32(ip.Atime.Seconds) == d.Atime[0] && uint32(ip.Mtime.Seconds) == d.Mtime[0] && uint32(ip.Atime.Nseconds) == d.Atime[1] && uint32(ip.Mtime.Nseconds) == d.Mtime[1]
		for i := 0; i < 10 && same; i++ {
			if blks[i] != d.Blks[i] {
				same = false
			}
		}
		if !same {
			errs = append(errs, fmt.Sprintf("icache-differs-from-disk: cached inode %d is {%v}, disk has %+v", id, ip, d))
		}
		if ip.Dcache != nil && d.Kind == 2 {
			ents := ip.Dcache.VerifEntries()
			disk := fr.Dirs[id]
			if disk == nil {
				if _, used := fr.Reachable[id]; used {
					errs = append(errs, fmt.Sprintf("dcache-without-dir: inode %d has a name cache but fsck did not reach it as a directory", id))
				}
				return
			}
			if len(ents) != len(disk) {
				errs = append(errs, fmt.Sprintf("dcache-differs-from-disk: directory %d caches %d names, disk has %d", id, len(ents), len(disk)))
				return
			}
			for n, e := range ents {
				de, ok := disk[n]
				if !ok || de.Inum != e.Inum || de.Off != e.Off {
					errs = append(errs, fmt.Sprintf("dcache-differs-from-disk: directory %d caches %q -> (%d,off %d), disk has (%d,off %d) present=%v", id, n, e.Inum, e.Off, de.Inum, de.Off, ok))
					return
				}
			}
		}
	})
	sort.Strings(errs)
	return errs
}

func (w *World) FreeCounts() (uint64, uint64) {
	st := w.Srv.VerifFsState()
	return st.Balloc.NumFree(), st.Ialloc.NumFree()
}

// CompareDump: API-only dump of the server vs the model.
func (w *World) CompareDump(withHandles bool) string {
	d, err := fsx.Dump(w.api(), w.Probe)
	if err != nil {
		return "dump failed: " + err.Error()
	}
	return reffs.DiffDumps(d, w.Model.Dump(w.Probe), withHandles)
}

// Sweep: the observation sweep of C02 - every read-only procedure on every
// live object and every name, checked by the model.  Returns the first mismatch.
func (w *World) Sweep() (string, *reffs.Mismatch, fsx.Op) {
	var vars []string
	for v := range w.Vars.Live {
		vars = append(vars, v)
	}
	sort.Strings(vars)
	try := func(o fsx.Op) *reffs.Mismatch {
		_, _, mis := w.Do(o)
		return mis
	}
	for _, v := range vars {
		h, _ := w.Vars.Resolve(v)
		id, live := w.Model.ByFH[fmt.Sprintf("%x", h)]
		if !live {
			continue
		}
		obj := w.Model.Objs[id]
		ops := []fsx.Op{{K: "GETATTR", H: v}, {K: "ACCESS", H: v}, {K: "READLINK", H: v}, {K: "READ", H: v, Off: 0, Cnt: 1 << 16},
			{K: "LOOKUP", H: v, N: "."}, {K: "LOOKUP", H: v, N: ".."}, {K: "LOOKUP", H: v, N: "nonexistent"},
			{K: "READDIR", H: v, Cnt: 1 << 20}, {K: "READDIRPLUS", H: v, DirCnt: 1 << 20, MaxCnt: 1 << 20}, {K: "PATHCONF", H: v}, {K: "FSINFO", H: v}}
		if obj.Kind == reffs.REG && obj.Size > 1<<16 && obj.Size <= w.Probe.Full {
			for off := uint64(1 << 16); off < obj.Size; off += 1 << 16 {
				ops = append(ops, fsx.Op{K: "READ", H: v, Off: off, Cnt: 1 << 16})
			}
		}
		if obj.Kind == reffs.DIR {
			var names []string
			for n := range obj.Children {
				names = append(names, n)
			}
			sort.Strings(names)
			for _, n := range names {
				ops = append(ops, fsx.Op{K: "LOOKUP", H: v, N: n, As: "_"})
			}
		}
		for _, o := range ops {
			if mis := try(o); mis != nil {
				return v, mis, o
			}
		}
		// complete listing equals the model's
		if obj.Kind == reffs.DIR {
			ents, err := fsx.ListDir(w.Srv, h)
			if err != nil {
				return v, &reffs.Mismatch{Rule: "READDIRPLUS-enumeration", Msg: err.Error()}, fsx.Op{K: "READDIRPLUS", H: v}
			}
			got := map[string]bool{}
			for _, e := range ents {
				if got[e.Name] {
					return v, &reffs.Mismatch{Rule: "READDIRPLUS-dup", Msg: fmt.Sprintf("%q listed twice", e.Name)}, fsx.Op{K: "READDIRPLUS", H: v}
				}
				got[e.Name] = true
			}
			for n := range obj.Children {
				if !got[n] {
					return v, &reffs.Mismatch{Rule: "READDIRPLUS-missing", Msg: fmt.Sprintf("%q not listed", n)}, fsx.Op{K: "READDIRPLUS", H: v}
				}
			}
			if len(got) != len(obj.Children)+2 {
				return v, &reffs.Mismatch{Rule: "READDIRPLUS-extra", Msg: fmt.Sprintf("%d entries listed, reference has %d (+2)", len(got), len(obj.Children))}, fsx.Op{K: "READDIRPLUS", H: v}
			}
			// the same listing page by page: one entry per page, and a few per page
			for _, pg := range []struct {
				plus  bool
				limit uint64
			}{{false, 1}, {true, 1}, {false, 64 + 3*40}, {true, 64 + 3*200}} {
				pe, err := fsx.ListDirPaged(w.Srv, h, pg.plus, pg.limit)
				o := fsx.Op{K: "READDIR", H: v, Cnt: pg.limit}
				if pg.plus {
					o = fsx.Op{K: "READDIRPLUS", H: v, DirCnt: 1 << 30, MaxCnt: uint32(pg.limit)}
				}
				if err != nil {
					return v, &reffs.Mismatch{Rule: o.K + "-paged-enumeration", Msg: err.Error()}, o
				}
				seen := map[string]bool{}
				for _, e := range pe {
					if seen[e.Name] || !got[e.Name] {
						return v, &reffs.Mismatch{Rule: o.K + "-paged-dup-or-extra", Msg: fmt.Sprintf("%q listed twice or not in the directory (page limit %d)", e.Name, pg.limit)}, o
					}
					seen[e.Name] = true
				}
				if len(seen) != len(got) {
					return v, &reffs.Mismatch{Rule: o.K + "-paged-missing", Msg: fmt.Sprintf("%d of %d entries listed page by page (page limit %d)", len(seen), len(got), pg.limit)}, o
				}
			}
		}
	}
	// dead handles stay dead
	var dvars []string
	for v := range w.Vars.Dead {
		dvars = append(dvars, v)
	}
	sort.Strings(dvars)
	for _, v := range dvars {
		for _, h := range w.Vars.Dead[v] {
			if _, live := w.Model.ByFH[fmt.Sprintf("%x", h)]; live {
				continue
			}
			o := fsx.Op{K: "GETATTR", H: fmt.Sprintf("raw:%x", h)}
			if mis := try(o); mis != nil {
				return v, mis, o
			}
		}
	}
	return "", nil, fsx.Op{}
}
