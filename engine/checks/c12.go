package checks

import (
	"fmt"

	"github.com/mit-pdos/go-journal/vrt"

	"verif/fsx"
	"verif/reffs"
	"verif/report"
)

// ---- C12: bytes never written read as zero; old data is never exposed ----

func c12Alphabet() []fsx.Op {
	al := []fsx.Op{
		{K: "CREATE", H: "root", N: "f"}, {K: "CREATE", H: "root", N: "g"},
		{K: "REMOVE", H: "root", N: "f"}, {K: "REMOVE", H: "root", N: "g"}, {K: "RESTART"},
		// a symbolic link stores its target like file data: its inode and block are recycled too
		{K: "SYMLINK", H: "root", N: "s", Target: "link-target-of-forty-one-bytes-0123456789"}, {K: "REMOVE", H: "root", N: "s"},
		// ... and so is the block of a directory (its "." and ".." entries)
		{K: "MKDIR", H: "root", N: "d"}, {K: "RMDIR", H: "root", N: "d"},
	}
	for _, n := range []uint64{1, 2, 9} {
		al = append(al, fsx.Op{K: "WRITE", H: "root/f", Off: 0, Cnt: n * 4096, Pat: 0x21, Stable: 2}) // fill f with pattern A
	}
	al = append(al, fsx.Op{K: "WRITE", H: "root/g", Off: 0, Cnt: 3 * 4096, Pat: 0x32, Stable: 2}) // fill g with pattern B
	for _, sz := range []uint64{0, 1, 100, 4095, 4096, 4097, 5000, 8192, 9*4096 + 7} {
		al = append(al, fsx.Op{K: "SETATTR", H: "root/f", Size: sz})
	}
	al = append(al, fsx.Op{K: "SETATTR", H: "root/g", Size: 6000})
	for _, off := range []uint64{0, 100, 4000, 4096 + 50, 9*4096 + 7} {
		for _, l := range []uint64{1, 50, 5000} {
			al = append(al, fsx.Op{K: "WRITE", H: "root/g", Off: off, Cnt: l, Pat: 0x43, Stable: 2})
		}
	}
	al = append(al, fsx.Op{K: "WRITE", H: "root/f", Off: 3*4096 + 10, Cnt: 20, Pat: 0x54, Stable: 0}) // past the end: gap
	return al
}

func c12After(w *World, path []fsx.Op, r fsx.Reply, implFail bool, mis *reffs.Mismatch, viol func(sig, detail string)) {
	if mis != nil {
		viol(mis.Rule, mis.Msg+"\nreply: "+r.Brief())
		return
	}
	// every file is read in full and compared byte for byte with the reference
	for _, v := range []string{"root/f", "root/g"} {
		if !w.Enabled(fsx.Op{H: v}) {
			continue
		}
		_, short, m := w.Do(fsx.Op{K: "READ", H: v, Off: 0, Cnt: 1 << 20})
		if m != nil {
			viol("read|"+m.Rule, fmt.Sprintf("%s: %s", v, m.Msg))
			return
		}
		if short {
			return // the disk is too full to materialise the holes being read: nothing more can be observed here
		}
	}
	if d := w.CompareDump(true); d != "" {
		viol("dump", d)
		return
	}
	// recycled blocks must also be accounted for consistently (allocators == on-disk bitmaps)
	vrt.Quiesce()
	for _, e := range w.Audit(w.Fsck()) {
		if rl := ruleOf(e); rl == "balloc-differs-from-disk" || rl == "ialloc-differs-from-disk" {
			viol("audit|"+rl, e)
		}
	}
}

// a file of 506 blocks of real data: truncating or removing it frees just as many blocks as one transaction can take,
// and the in-transaction free may stop a few blocks early (the file stays marked as shrinking)
var c12WindowSetup = func() []fsx.Op {
	s := []fsx.Op{{K: "CREATE", H: "root", N: "f"}}
	for i := 0; i < 6; i++ {
		n := uint64(100)
		if i == 5 {
			n = 6
		}
		s = append(s, fsx.Op{K: "WRITE", H: "root/f", Off: uint64(i) * 100 * 4096, Cnt: n * 4096, Pat: byte(0x61 + i), Stable: 2})
	}
	return s
}()

func c12WindowAfter(w *World, path []fsx.Op, r fsx.Reply, implFail bool, mis *reffs.Mismatch, viol func(sig, detail string)) {
	if mis != nil {
		viol(mis.Rule, mis.Msg+"\nreply: "+r.Brief())
		return
	}
	if d := w.CompareDump(true); d != "" {
		viol("dump", d)
		return
	}
	vrt.Quiesce()
	fr := w.Fsck()
	for _, e := range fr.Errors {
		// (only what re-exposes old bytes: a block still attached beyond the size and the pending-shrink mark;
		// other structural rules are C04's business)
		if ruleOf(e) == "block-beyond-size" {
			viol("fsck|"+ruleOf(e), e)
		}
	}
}

func init() {
	RegisterSeq("c12.window", &SeqSpec{Prop: "C12", DiskSize: 3000, Setup: c12WindowSetup, After: c12WindowAfter,
		Key: func(w *World) string { w.Probe = &fsx.Probe{Full: 4 << 20}; return w.defaultKey() },
		Alphabet: []fsx.Op{{K: "SETATTR", H: "root/f", Size: 0}, {K: "SETATTR", H: "root/f", Size: 100}, {K: "SETATTR", H: "root/f", Size: 2 * 4096}, {K: "SETATTR", H: "root/f", Size: 4*4096 + 9},
			{K: "SETATTR", H: "root/f", Size: 506 * 4096}, {K: "SETATTR", H: "root/f", Size: 600 * 4096}, {K: "REMOVE", H: "root", N: "f"}, {K: "CREATE", H: "root", N: "f"}, {K: "CREATE", H: "root", N: "g"},
			{K: "WRITE", H: "root/f", Off: 0, Cnt: 10, Pat: 0x71, Stable: 2}, {K: "WRITE", H: "root/g", Off: 505 * 4096, Cnt: 10, Pat: 0x72, Stable: 2}, {K: "SETATTR", H: "root/g", Size: 510 * 4096}, {K: "RESTART"}}})
	Checks["C12"] = C12
	RegisterSeq("c12.tiny12", &SeqSpec{Prop: "C12", DiskSize: 1539 + 1 + 12, Alphabet: c12Alphabet(), After: c12After, AllowImplFail: true})
	RegisterSeq("c12.tiny40", &SeqSpec{Prop: "C12", DiskSize: 1539 + 1 + 40, Alphabet: c12Alphabet(), After: c12After, AllowImplFail: true})
}

func C12(r *report.Report, tier string) {
	depth, cdepth := 4, 2
	if tier == "thorough" {
		depth, cdepth = 5, 3
	}
	r.Only = map[string]bool{"C12": true}
	al := c12Alphabet()
	r.Rule = fmt.Sprintf("block recycling on disks with 12 and 40 data blocks (every freed block is reallocated within one or two operations): breadth-first search to depth %d over %d symbols - fill f with pattern A over 1/2/9 blocks, fill g with pattern B, truncate to aligned and unaligned sizes, grow, partial-block writes at several offsets, writes past the end, remove, re-create, restart; after every transition every file is read in full and compared byte for byte with the reference (a byte never written since the last truncation below it is 0; no pattern of another or deleted file); a third search (depth one less) from a file of 506 blocks of data, whose truncation or removal frees just as many blocks as one transaction can take (the free may stop a few blocks early), followed by growth and reuse of the inode number; plus every crash image of every history of depth <=%d over a sub-alphabet, recovered and compared byte-exactly with the prefix states; plus crash images (quick: 120 per history) of truncations of a 530-block file to sizes inside a block, whose freeing takes several background transactions: after recovery every surviving file is written across its end and grown (one recovery schedule) or written far beyond its end (the other), and the part in between must read as zeros", depth, len(al), cdepth)
	s1 := RunSeq(r, "c12.tiny12", depth)
	s2 := RunSeq(r, "c12.tiny40", depth)
	s3 := RunSeq(r, "c12.window", depth-1)
	r.Extra["searches"] = []*SeqSummary{s1, s2, s3}
	// crash images of recycling histories
	sub := []fsx.Op{al[9], al[2], al[7], al[8], {K: "SETATTR", H: "root/f", Size: 100}, {K: "SETATTR", H: "root/f", Size: 5000}, {K: "WRITE", H: "root/g", Off: 4000, Cnt: 5000, Pat: 0x43, Stable: 2},
		{K: "WRITE", H: "root/g", Off: 9*4096 + 7, Cnt: 50, Pat: 0x44, Stable: 0}, {K: "REMOVE", H: "root", N: "g"}, {K: "CREATE", H: "root", N: "f"}}
	setup := []fsx.Op{{K: "CREATE", H: "root", N: "f"}, {K: "CREATE", H: "root", N: "g"}, {K: "WRITE", H: "root/f", Off: 0, Cnt: 9 * 4096, Pat: 0x21, Stable: 2}}
	var jobs []crashArg
	for _, h := range crashHistories(sub, cdepth) {
		jobs = append(jobs, crashArg{Prop: "C12", DiskSize: 1539 + 1 + 40, Setup: setup, Ops: h, Cap: 128})
	}
	// a file of 530 blocks truncated to a size inside a block / removed: the blocks beyond the new end are given back by
	// several background transactions, and a crash between them leaves the file holding old blocks beyond its end -
	// after recovery the file is written across / far beyond its end, grown and read (surviveWrites)
	maxImg := 120
	if tier == "thorough" {
		maxImg = 0
	}
	for _, h := range [][]fsx.Op{
		{{K: "SETATTR", H: "root/big", Size: 3*4096 + 100}},
		{{K: "SETATTR", H: "root/big", Size: 5000}, {K: "WRITE", H: "root/keep", Off: 0, Cnt: 4096, Pat: 0x7f, Stable: 2}},
		{{K: "SETATTR", H: "root/big", Size: 40 * 4096}, {K: "SETATTR", H: "root/big", Size: 10*4096 + 1}},
	} {
		jobs = append(jobs, crashArg{Prop: "C12", DiskSize: 3000, Setup: big530Setup, Ops: h, Cap: 64, MaxImages: maxImg, Probe: &fsx.Probe{Full: 4 << 20}})
	}
	runCrashJobs(r, jobs, map[string]bool{"C12": true})
	r.Extra["bounds"] = map[string]int{"depth": depth, "crash_depth": cdepth}
}
