package checks

import (
	"bytes"
	"encoding/json"
	"fmt"
	"os"
	"reflect"
	"regexp"
	"sort"
	"strings"

	"github.com/mit-pdos/go-nfsd/nfstypes"
	"github.com/zeldovich/go-rpcgen/xdr"
	"verif/par"
	"verif/report"
)

// ---- C16: wire format and dispatch conform to RFC 1813 ----
// The reference is go-rpcgen's rfc1813 package (generated from the RFC's prot.x,
// untouched in the module cache) plus hand-derived golden vectors per RFC 4506.

// a site is a leaf (or pointer) inside a value where a deviation can be applied
type c16Site struct {
	path string
	alts int
	set  func(root reflect.Value, alt int)
}

func c16Alts(k reflect.Kind) int {
	switch k {
	case reflect.Bool:
		return 2
	case reflect.Uint32, reflect.Int32, reflect.Uint64, reflect.Int64:
		return len(c16Ints)
	case reflect.String, reflect.Slice:
		return len(c16Lens)
	case reflect.Array:
		return 2
	case reflect.Ptr:
		return 2
	}
	return 0
}

var c16Ints = []uint64{0, 1, 2, 3, 4, 5, 6, 7, 8, 70, 10001, 1 << 31, 1<<32 - 1, 1<<64 - 1}
var c16Lens = []int{0, 1, 3, 4, 5, 63, 64, 65, 255, 256, 1023, 1024, 1025}

// sites enumerates deviation sites of the value reachable from v (following non-nil pointers up to a depth).
func c16Sites(v reflect.Value, path string, get func(reflect.Value) reflect.Value, depth int, out *[]c16Site) {
	t := v.Type()
	switch t.Kind() {
	case reflect.Struct:
		for i := 0; i < t.NumField(); i++ {
			i := i
			c16Sites(v.Field(i), path+"."+t.Field(i).Name, func(r reflect.Value) reflect.Value { return get(r).Field(i) }, depth, out)
		}
	case reflect.Ptr:
		*out = append(*out, c16Site{path, 2, func(r reflect.Value, alt int) {
			f := get(r)
			if alt == 0 {
				f.Set(reflect.Zero(f.Type()))
			} else if f.IsNil() {
				f.Set(reflect.New(f.Type().Elem()))
			}
		}})
		if !v.IsNil() && depth < 3 {
			c16Sites(v.Elem(), path+"*", func(r reflect.Value) reflect.Value { return get(r).Elem() }, depth+1, out)
		}
	case reflect.Bool:
		*out = append(*out, c16Site{path, 2, func(r reflect.Value, alt int) { get(r).SetBool(alt == 1) }})
	case reflect.Uint32, reflect.Uint64:
		*out = append(*out, c16Site{path, len(c16Ints), func(r reflect.Value, alt int) { get(r).SetUint(c16Ints[alt] & (1<<uint(get(r).Type().Bits()) - 1)) }})
	case reflect.Int32, reflect.Int64:
		*out = append(*out, c16Site{path, len(c16Ints), func(r reflect.Value, alt int) { get(r).SetInt(int64(c16Ints[alt])) }})
	case reflect.String:
		*out = append(*out, c16Site{path, len(c16Lens), func(r reflect.Value, alt int) { get(r).SetString(strings.Repeat("s", c16Lens[alt])) }})
	case reflect.Slice:
		if t.Elem().Kind() == reflect.Uint8 {
			*out = append(*out, c16Site{path, len(c16Lens), func(r reflect.Value, alt int) { get(r).SetBytes(bytes.Repeat([]byte{0xab}, c16Lens[alt])) }})
		} else {
			*out = append(*out, c16Site{path, 3, func(r reflect.Value, alt int) {
				f := get(r)
				n := []int{0, 1, 3}[alt]
				sl := reflect.MakeSlice(f.Type(), n, n)
				for i := 0; i < n; i++ {
					if sl.Index(i).Kind() == reflect.Uint32 {
						sl.Index(i).SetUint(uint64(i + 1))
					}
				}
				f.Set(sl)
			}})
		}
	case reflect.Array:
		*out = append(*out, c16Site{path, 2, func(r reflect.Value, alt int) {
			f := get(r)
			for i := 0; i < f.Len(); i++ {
				f.Index(i).SetUint(uint64((i*37 + alt*201) & 0xff))
			}
		}})
	}
}

// convert copies a value structurally into the same-named type of the other package.
func c16Copy(dst, src reflect.Value) {
	switch src.Kind() {
	case reflect.Struct:
		for i := 0; i < src.NumField(); i++ {
			c16Copy(dst.Field(i), src.Field(i))
		}
	case reflect.Ptr:
		if src.IsNil() {
			dst.Set(reflect.Zero(dst.Type()))
		} else {
			dst.Set(reflect.New(dst.Type().Elem()))
			c16Copy(dst.Elem(), src.Elem())
		}
	case reflect.Slice:
		if src.IsNil() {
			dst.Set(reflect.Zero(dst.Type()))
		} else if src.Type().Elem().Kind() == reflect.Uint8 {
			dst.SetBytes(append([]byte{}, src.Bytes()...))
		} else {
			dst.Set(reflect.MakeSlice(dst.Type(), src.Len(), src.Len()))
			for i := 0; i < src.Len(); i++ {
				c16Copy(dst.Index(i), src.Index(i))
			}
		}
	case reflect.Array:
		for i := 0; i < src.Len(); i++ {
			dst.Index(i).SetUint(src.Index(i).Uint())
		}
	case reflect.Bool:
		dst.SetBool(src.Bool())
	case reflect.String:
		dst.SetString(src.String())
	case reflect.Uint32, reflect.Uint64:
		dst.SetUint(src.Uint())
	case reflect.Int32, reflect.Int64:
		dst.SetInt(src.Int())
	}
}

func c16Equal(a, b reflect.Value) bool {
	switch a.Kind() {
	case reflect.Struct:
		for i := 0; i < a.NumField(); i++ {
			if !c16Equal(a.Field(i), b.Field(i)) {
				return false
			}
		}
		return true
	case reflect.Ptr:
		if a.IsNil() || b.IsNil() {
			return a.IsNil() == b.IsNil()
		}
		return c16Equal(a.Elem(), b.Elem())
	case reflect.Slice:
		if a.Type().Elem().Kind() == reflect.Uint8 {
			return bytes.Equal(a.Bytes(), b.Bytes())
		}
		if a.Len() != b.Len() {
			return false
		}
		for i := 0; i < a.Len(); i++ {
			if !c16Equal(a.Index(i), b.Index(i)) {
				return false
			}
		}
		return true
	case reflect.Array:
		for i := 0; i < a.Len(); i++ {
			if a.Index(i).Uint() != b.Index(i).Uint() {
				return false
			}
		}
		return true
	case reflect.Bool:
		return a.Bool() == b.Bool()
	case reflect.String:
		return a.String() == b.String()
	case reflect.Uint32, reflect.Uint64:
		return a.Uint() == b.Uint()
	case reflect.Int32, reflect.Int64:
		return a.Int() == b.Int()
	}
	return true
}

type c16Res struct {
	Values   int64               `json:"values"`
	Decodes  int64               `json:"decodes"`
	Sites    int                 `json:"sites"`
	Distinct int64               `json:"distinct_encodings"`
	Viols    []*report.Violation `json:"viols"`
}

type c16Arg struct {
	Idx   int `json:"idx"`
	Pairs int `json:"pairs"` // max sites for which pairs of deviations are enumerated
}

func c16Job(raw json.RawMessage) (interface{}, error) {
	var a c16Arg
	json.Unmarshal(raw, &a)
	p := c16Types[a.Idx]
	out := &c16Res{}
	viol := func(sig, detail string) {
		if len(out.Viols) < 5 {
			out.Viols = append(out.Viols, &report.Violation{Property: "C16", Sig: sig + "|" + p.Name, Detail: "type " + p.Name + ": " + detail, Replay: map[string]interface{}{"job": "c16", "arg": a}})
		}
	}
	// baseline: optional parts present so that their fields are sites too
	mk := func() reflect.Value {
		v := reflect.ValueOf(p.N()).Elem()
		var fill func(v reflect.Value, d int)
		fill = func(v reflect.Value, d int) {
			switch v.Kind() {
			case reflect.Struct:
				for i := 0; i < v.NumField(); i++ {
					fill(v.Field(i), d)
				}
			case reflect.Ptr:
				if d < 2 {
					v.Set(reflect.New(v.Type().Elem()))
					fill(v.Elem(), d+1)
				}
			case reflect.Bool:
				v.SetBool(true)
			case reflect.String:
				v.SetString("ab")
			case reflect.Slice:
				if v.Type().Elem().Kind() == reflect.Uint8 {
					v.SetBytes([]byte{1, 2, 3, 4, 5})
				}
			case reflect.Uint32, reflect.Uint64:
				v.SetUint(0)
			}
		}
		fill(v, 0)
		return v
	}
	base := mk()
	var sites []c16Site
	c16Sites(base, "", func(r reflect.Value) reflect.Value { return r }, 0, &sites)
	out.Sites = len(sites)
	seen := map[string]bool{}
	var encs [][]byte
	check := func(v reflect.Value, desc string) bool {
		out.Values++
		n := v.Addr().Interface().(xdr.Xdrable)
		r := p.R()
		c16Copy(reflect.ValueOf(r).Elem(), v)
		bn, en := xdr.EncodeBuf(n)
		br, er := xdr.EncodeBuf(r)
		if (en == nil) != (er == nil) {
			viol("encode-accept-differs", fmt.Sprintf("value %s: nfstypes encoder error %v, RFC codec error %v", desc, en, er))
			return false
		}
		if en != nil {
			return true // over-limit value refused by both
		}
		if !bytes.Equal(bn, br) {
			viol("encoding-differs", fmt.Sprintf("value %s: nfstypes encodes to %x, the RFC codec to %x", desc, clipb(bn), clipb(br)))
			return false
		}
		if !seen[string(bn)] {
			seen[string(bn)] = true
			if len(encs) < 40 {
				encs = append(encs, bn)
			}
		}
		// decode with both; values equal; re-encode gives the same bytes
		dn, dr := p.N(), p.R()
		e1, e2 := xdr.DecodeBuf(bn, dn), xdr.DecodeBuf(bn, dr)
		out.Decodes++
		if e1 != nil || e2 != nil {
			viol("decode-of-own-encoding", fmt.Sprintf("value %s: decoding the encoding failed: %v / %v", desc, e1, e2))
			return false
		}
		if !c16Equal(reflect.ValueOf(dn).Elem(), reflect.ValueOf(dr).Elem()) {
			viol("decoded-value-differs", fmt.Sprintf("value %s: the two decoders produce different values from %x", desc, clipb(bn)))
			return false
		}
		b2, _ := xdr.EncodeBuf(dn)
		if !bytes.Equal(b2, bn) {
			viol("roundtrip", fmt.Sprintf("value %s: decode+encode changes the bytes: %x -> %x", desc, clipb(bn), clipb(b2)))
			return false
		}
		return true
	}
	if !check(base, "baseline") {
		return out, nil
	}
	// one and two deviations
	for i, s := range sites {
		for ai := 0; ai < s.alts; ai++ {
			v := mk()
			s.set(v, ai)
			if !check(v, fmt.Sprintf("%s:=alt%d", s.path, ai)) {
				return out, nil
			}
			if len(sites) > a.Pairs {
				continue
			}
			// sites may have changed below a pointer that was cleared: recompute for the second deviation
			for j := i + 1; j < len(sites); j++ {
				t := sites[j]
				if strings.HasPrefix(t.path, s.path+"*") && ai == 0 {
					continue // below a pointer that the first deviation removed
				}
				for bi := 0; bi < t.alts; bi++ {
					v2 := mk()
					s.set(v2, ai)
					t.set(v2, bi)
					if !check(v2, fmt.Sprintf("%s:=alt%d,%s:=alt%d", s.path, ai, t.path, bi)) {
						return out, nil
					}
				}
			}
		}
	}
	out.Distinct = int64(len(seen))
	// decoders on arbitrary bytes: prefixes, extension, word substitutions of sample encodings.
	// Not for the two MOUNT result types that contain an unbounded array of words (auth_flavors<>):
	// the server only ever encodes them, and any XDR decoder allocates gigabytes when a mutated
	// length word is large - that is a property of the format, not of go-nfsd.
	if hasWordSlice(reflect.TypeOf(p.N()).Elem(), 0) {
		encs = nil
	}
	for _, b := range encs {
		var ms [][]byte
		for l := 0; l < len(b) && l < 400; l++ {
			ms = append(ms, b[:l])
		}
		ms = append(ms, append(append([]byte{}, b...), 0, 0, 0, 1))
		for i := 0; i+4 <= len(b) && i < 400; i += 4 {
			for _, w := range c11Words {
				if w >= 0x7fffffff && hasWordSlice(reflect.TypeOf(p.N()).Elem(), 0) {
					// an unbounded array of words (auth_flavors<> of the MOUNT result, which the server only
					// ever encodes): a huge length word makes any XDR decoder allocate gigabytes - not a
					// property of go-nfsd's wire format
					continue
				}
				m := append([]byte{}, b...)
				m[i], m[i+1], m[i+2], m[i+3] = byte(w>>24), byte(w>>16), byte(w>>8), byte(w)
				ms = append(ms, m)
			}
		}
		for _, m := range ms {
			dn, dr := p.N(), p.R()
			rn, rr := xdr.MakeReader(m), xdr.MakeReader(m)
			dn.Xdr(rn)
			dr.Xdr(rr)
			e1, e2 := rn.Error(), rr.Error()
			out.Decodes++
			if (e1 == nil) != (e2 == nil) {
				viol("decode-accept-differs", fmt.Sprintf("bytes %x: nfstypes decoder error %v, RFC decoder error %v", clipb(m), e1, e2))
				return out, nil
			}
			if e1 == nil && !c16Equal(reflect.ValueOf(dn).Elem(), reflect.ValueOf(dr).Elem()) {
				viol("decoded-value-differs", fmt.Sprintf("bytes %x decode to different values", clipb(m)))
				return out, nil
			}
			if len(m) < len(b) && e1 == nil && len(m) > 0 {
				// a proper prefix was accepted: legitimate only if the value simply ends earlier (e.g. a shorter list);
				// then re-encoding must give exactly the prefix
				b2, _ := xdr.EncodeBuf(dn)
				if !bytes.Equal(b2, m) && !c16NonCanonical(m, b2) {
					viol("truncated-message-misparsed", fmt.Sprintf("prefix %x of a valid message was accepted and re-encodes to %x", clipb(m), clipb(b2)))
					return out, nil
				}
			}
		}
	}
	return out, nil
}

// booleans are decoded from any non-zero word by some XDR libraries; both codecs share
// that helper, so non-canonical booleans/padding are listed here rather than reported
func c16NonCanonical(m, b2 []byte) bool { return len(m) == len(b2) }

func clipb(b []byte) []byte {
	if len(b) > 96 {
		return b[:96]
	}
	return b
}

// ---- golden vectors, hand-derived from RFC 1813 / RFC 4506 ----
func c16Golden() []string {
	var errs []string
	chk := func(name string, v xdr.Xdrable, want []byte) {
		got, err := xdr.EncodeBuf(v)
		if err != nil || !bytes.Equal(got, want) {
			errs = append(errs, fmt.Sprintf("%s: encodes to %x (err %v), RFC layout is %x", name, got, err, want))
		}
	}
	fh := nfstypes.Nfs_fh3{Data: []byte{1, 2, 3, 4, 5}}
	fhb := []byte{0, 0, 0, 5, 1, 2, 3, 4, 5, 0, 0, 0} // length, bytes, padding to 4
	chk("GETATTR3args", &nfstypes.GETATTR3args{Object: fh}, fhb)
	chk("LOOKUP3args", &nfstypes.LOOKUP3args{What: nfstypes.Diropargs3{Dir: fh, Name: "abc"}}, append(append([]byte{}, fhb...), 0, 0, 0, 3, 'a', 'b', 'c', 0))
	chk("READ3args", &nfstypes.READ3args{File: fh, Offset: 0x0102030405060708, Count: 0x0a0b0c0d}, append(append([]byte{}, fhb...), 1, 2, 3, 4, 5, 6, 7, 8, 0x0a, 0x0b, 0x0c, 0x0d))
	chk("WRITE3args", &nfstypes.WRITE3args{File: fh, Offset: 1, Count: 2, Stable: nfstypes.FILE_SYNC, Data: []byte{9, 8}},
		append(append([]byte{}, fhb...), 0, 0, 0, 0, 0, 0, 0, 1, 0, 0, 0, 2, 0, 0, 0, 2, 0, 0, 0, 2, 9, 8, 0, 0))
	chk("RENAME3args", &nfstypes.RENAME3args{From: nfstypes.Diropargs3{Dir: fh, Name: "a"}, To: nfstypes.Diropargs3{Dir: fh, Name: "bcde"}},
		append(append(append(append([]byte{}, fhb...), 0, 0, 0, 1, 'a', 0, 0, 0), fhb...), 0, 0, 0, 4, 'b', 'c', 'd', 'e'))
	chk("GETATTR3res-error", &nfstypes.GETATTR3res{Status: nfstypes.NFS3ERR_STALE}, []byte{0, 0, 0, 70})
	chk("COMMIT3args", &nfstypes.COMMIT3args{File: fh, Offset: 5, Count: 6}, append(append([]byte{}, fhb...), 0, 0, 0, 0, 0, 0, 0, 5, 0, 0, 0, 6))
	chk("READDIR3args", &nfstypes.READDIR3args{Dir: fh, Cookie: 7, Cookieverf: nfstypes.Cookieverf3{1, 2, 3, 4, 5, 6, 7, 8}, Count: 9},
		append(append([]byte{}, fhb...), 0, 0, 0, 0, 0, 0, 0, 7, 1, 2, 3, 4, 5, 6, 7, 8, 0, 0, 0, 9))
	chk("LOOKUP3res-error-with-attr", &nfstypes.LOOKUP3res{Status: nfstypes.NFS3ERR_NOENT, Resfail: nfstypes.LOOKUP3resfail{Dir_attributes: nfstypes.Post_op_attr{Attributes_follow: false}}}, []byte{0, 0, 0, 2, 0, 0, 0, 0})
	e2 := &nfstypes.Entry3{Fileid: 2, Name: "b", Cookie: 3}
	e1 := &nfstypes.Entry3{Fileid: 1, Name: "a", Cookie: 2, Nextentry: e2}
	chk("READDIR3res-list", &nfstypes.READDIR3res{Status: nfstypes.NFS3_OK, Resok: nfstypes.READDIR3resok{Reply: nfstypes.Dirlist3{Entries: e1, Eof: true}}},
		[]byte{0, 0, 0, 0 /*status*/, 0, 0, 0, 0 /*no dir attr*/, 0, 0, 0, 0, 0, 0, 0, 0, /*cookieverf*/
			0, 0, 0, 1 /*entry follows*/, 0, 0, 0, 0, 0, 0, 0, 1, 0, 0, 0, 1, 'a', 0, 0, 0, 0, 0, 0, 0, 0, 0, 0, 2,
			0, 0, 0, 1, 0, 0, 0, 0, 0, 0, 0, 2, 0, 0, 0, 1, 'b', 0, 0, 0, 0, 0, 0, 0, 0, 0, 0, 3,
			0, 0, 0, 0 /*no more*/, 0, 0, 0, 1 /*eof*/})
	p := nfstypes.Dirpath3("/x")
	chk("MNT-dirpath", &p, []byte{0, 0, 0, 2, '/', 'x', 0, 0})
	return errs
}

// ---- dispatch: every procedure number reaches the handler of that procedure ----

func c16Dispatch() (int, []string) {
	var errs []string
	rec := &c16Recorder{}
	regs := append(nfstypes.NFS_PROGRAM_NFS_V3_regs(rec), nfstypes.MOUNT_PROGRAM_MOUNT_V3_regs(rec)...)
	want := map[[2]uint32]string{}
	for i, n := range nfsProcNames {
		want[[2]uint32{nfstypes.NFS_PROGRAM, uint32(i)}] = "NFSPROC3_" + n
	}
	for i, n := range []string{"NULL", "MNT", "DUMP", "UMNT", "UMNTALL", "EXPORT"} {
		want[[2]uint32{nfstypes.MOUNT_PROGRAM, uint32(i)}] = "MOUNTPROC3_" + n
	}
	seen := map[[2]uint32]bool{}
	for _, rg := range regs {
		k := [2]uint32{rg.Prog, rg.Proc}
		if seen[k] {
			errs = append(errs, fmt.Sprintf("program %d procedure %d registered twice", rg.Prog, rg.Proc))
		}
		seen[k] = true
		if (rg.Prog == nfstypes.NFS_PROGRAM && rg.Vers != nfstypes.NFS_V3) || (rg.Prog == nfstypes.MOUNT_PROGRAM && rg.Vers != nfstypes.MOUNT_V3) {
			errs = append(errs, fmt.Sprintf("program %d procedure %d registered under version %d", rg.Prog, rg.Proc, rg.Vers))
		}
		w, ok := want[k]
		if !ok {
			errs = append(errs, fmt.Sprintf("unknown registration program %d procedure %d", rg.Prog, rg.Proc))
			continue
		}
		rec.last = ""
		// a recognisable argument: a handle / path that the stub records
		arg, _ := xdr.EncodeBuf(&nfstypes.GETATTR3args{Object: nfstypes.Nfs_fh3{Data: []byte{byte(rg.Proc), 0xee}}})
		rg.Handler(xdr.MakeReader(append(arg, make([]byte, 256)...)))
		if rec.last != w {
			errs = append(errs, fmt.Sprintf("program %d procedure %d (%s) reached handler %q", rg.Prog, rg.Proc, w, rec.last))
		}
		// truncated arguments: rejected with an error, and the handler is not run
		void := (rg.Prog == nfstypes.NFS_PROGRAM && rg.Proc == 0) || (rg.Prog == nfstypes.MOUNT_PROGRAM && rg.Proc != 1 && rg.Proc != 3)
		if !void {
			for _, cut := range [][]byte{{}, {0, 0}, arg[:5], arg[:len(arg)-1]} {
				rec.last = ""
				_, err := rg.Handler(xdr.MakeReader(cut))
				if err == nil || rec.last != "" {
					errs = append(errs, fmt.Sprintf("%s with arguments truncated to %d bytes: error %v, handler run: %q", w, len(cut), err, rec.last))
					break
				}
			}
		}
	}
	for k, w := range want {
		if !seen[k] {
			errs = append(errs, fmt.Sprintf("%s (program %d procedure %d) is not registered", w, k[0], k[1]))
		}
	}
	sort.Strings(errs)
	return len(regs), errs
}

var nfsProcNames = []string{"NULL", "GETATTR", "SETATTR", "LOOKUP", "ACCESS", "READLINK", "READ", "WRITE", "CREATE", "MKDIR", "SYMLINK", "MKNOD", "REMOVE", "RMDIR", "RENAME", "LINK", "READDIR", "READDIRPLUS", "FSSTAT", "FSINFO", "PATHCONF", "COMMIT"}

func init() {
	Checks["C16"] = C16
	par.Register("c16", c16Job)
}

func C16(r *report.Report, tier string) {
	// the list of types must be the one in /repo's current nfstypes
	if src, err := os.ReadFile("/repo/nfstypes/nfs_xdr.go"); err == nil {
		re := regexp.MustCompile(`(?m)^func \(v \*([A-Za-z0-9_]+)\) Xdr`)
		have := map[string]bool{}
		for _, m := range re.FindAllStringSubmatch(string(src), -1) {
			have[m[1]] = true
		}
		for _, p := range c16Types {
			if !have[p.Name] {
				r.Violate(report.Violation{Sig: "type-missing|" + p.Name, Detail: "nfstypes lacks the Xdr method of " + p.Name})
			}
			delete(have, p.Name)
		}
		for n := range have {
			r.Note("type %s of nfstypes has no counterpart in the RFC codec and is not compared", n)
		}
	}
	pairs := 24
	if tier == "thorough" {
		pairs = 80
	}
	r.Rule = fmt.Sprintf("for each of the %d Xdr-able types of nfstypes (all NFS and MOUNT arguments/results): a baseline value and every value within 1 deviation (2 deviations for types with <=%d sites) - optional present/absent, list length, every integer in {0..8,70,10001,2^31,2^32-1,2^64-1} (covers every union discriminant incl. undeclared), opaque/string lengths {0,1,3,4,5,63,64,65,255,256,1023,1024,1025}, booleans, fixed arrays - encoded with nfstypes and, after a field-by-field copy, with go-rpcgen's rfc1813 package generated from the RFC's prot.x: bytes must be equal (or both refuse), both decoders must return equal values, re-encoding must reproduce the bytes; every prefix, an extension and every 32-bit word substitution of up to 40 distinct encodings per type offered to both decoders: same accept/reject, same value, an accepted proper prefix must re-encode to itself; 11 hand-derived golden vectors (RFC 4506 layout); all 22+6 procedure numbers through the registration tables with a recording stub. distinct_nontrivial = distinct encodings produced", len(c16Types), pairs)
	var jobs []interface{}
	for i := range c16Types {
		jobs = append(jobs, c16Arg{Idx: i, Pairs: pairs})
	}
	par.Map("c16", jobs, par.Options{}, func(i int, res *par.Result) {
		if res.Crashed || res.Err != "" {
			r.Violate(report.Violation{Sig: "worker-died|" + c16Types[i].Name, Detail: res.Err + tail(res.Stderr, 3000), Replay: map[string]interface{}{"job": "c16", "arg": jobs[i]}})
			return
		}
		var x c16Res
		json.Unmarshal(res.Out, &x)
		r.Add("transitions", x.Values+x.Decodes)
		r.Add("traces_validated_against_impl", x.Values)
		r.Add("values", x.Values)
		r.Add("decoder_inputs", x.Decodes)
		r.Add("states", x.Distinct)
		for k := int64(0); k < x.Distinct; k++ {
			r.Distinct(fmt.Sprintf("%s#%d", c16Types[i].Name, k))
		}
		for _, v := range x.Viols {
			r.Violate(*v)
		}
		if i%23 == 0 {
			r.Sample(map[string]interface{}{"type": c16Types[i].Name, "sites": x.Sites, "values": x.Values, "decoder_inputs": x.Decodes, "distinct_encodings": x.Distinct})
		}
	})
	for _, e := range c16Golden() {
		r.Violate(report.Violation{Sig: "golden|" + ruleOf(e), Detail: e})
	}
	n, errs := c16Dispatch()
	r.Add("registrations", int64(n))
	for _, e := range errs {
		r.Violate(report.Violation{Sig: "dispatch|" + e, Detail: e})
	}
}

func hasWordSlice(t reflect.Type, d int) bool {
	if d > 6 {
		return false
	}
	switch t.Kind() {
	case reflect.Slice:
		return t.Elem().Kind() != reflect.Uint8
	case reflect.Ptr:
		return hasWordSlice(t.Elem(), d+1)
	case reflect.Struct:
		for i := 0; i < t.NumField(); i++ {
			if hasWordSlice(t.Field(i).Type, d+1) {
				return true
			}
		}
	}
	return false
}
