package checks

import (
	"encoding/json"
	"fmt"
	"io"
	"os"
	"sort"
	"strings"

	"github.com/mit-pdos/go-journal/lockmap"
	"github.com/mit-pdos/go-journal/vrt"
	"github.com/mit-pdos/go-nfsd/fstxn"
	"verif/fsx"
	"verif/lin"
	"verif/reffs"
	"verif/report"
)

// ---- concurrent NFS harness (engine E1), shared by C03, C04, C05, C06, C14 ----

type concArg struct {
	Name     string     `json:"name"`
	DiskSize uint64     `json:"disk"`
	Setup    []fsx.Op   `json:"setup"`
	Clients  [][]fsx.Op `json:"clients"`
	ICacheSz uint64     `json:"icachesz,omitempty"`
	Probe    *fsx.Probe `json:"probe,omitempty"`
	NoLin    bool       `json:"nolin,omitempty"`    // C14 race build: skip the oracles that are not needed
	NShard   uint64     `json:"nshard,omitempty"`   // lockmap.NSHARD for this run (0: the scaled default 13)
	ImplFail bool       `json:"implfail,omitempty"` // full disk: NOSPC is an accepted outcome of a request (no effect)
	Prefer   string     `json:"prefer,omitempty"`   // the calling check's property: its own oracle's verdict on the final state is reported first
}

type concIn struct {
	Op    fsx.Op
	H, H2 []byte
	Dump  bool
}

type concOut struct {
	R    fsx.Reply
	Dump map[string]fsx.Node
	Err  string
}

type linFS struct {
	fs    *reffs.FS
	probe *fsx.Probe
}

func (m linFS) Clone() lin.Model { return linFS{m.fs.Clone(), m.probe} }
func (m linFS) Step(in, out interface{}) bool {
	i, o := in.(concIn), out.(concOut)
	if i.Dump {
		return o.Err == "" && reffs.DiffDumps(o.Dump, m.fs.Dump(m.probe), true) == ""
	}
	r := o.R
	_, mis := m.fs.Step(i.Op, i.H, i.H2, &r)
	return mis == nil
}

func concHarness(raw json.RawMessage, cfg vrt.Config) (vrt.Result, Outcome) {
	var a concArg
	json.Unmarshal(raw, &a)
	base := cachedMkfs(a.DiskSize)
	probe := a.Probe
	if probe == nil {
		probe = fsx.DefaultProbe
	}
	var hist []lin.Op
	var outc Outcome
	var model0 *reffs.FS
	var post []*report.Violation
	saved := fstxn.ICACHESZ
	if a.ICacheSz != 0 {
		fstxn.ICACHESZ = a.ICacheSz
	}
	savedShard := lockmap.NSHARD
	if a.NShard != 0 {
		lockmap.NSHARD = a.NShard
	}
	defer func() { fstxn.ICACHESZ = saved; lockmap.NSHARD = savedShard }()
	if cfg.Horizon == 0 {
		cfg.Horizon = 400_000 // the default executions have a few thousand scheduling points: more is a retry loop that never ends
	}
	res := vrt.Run(cfg, func() {
		w := NewWorld(base)
		w.Disk.Record = false
		w.Probe = probe
		w.Model.AllowImplFail = a.ImplFail
		for _, o := range a.Setup {
			if _, _, mis := w.Do(o); mis != nil {
				panic(fmt.Sprintf("set-up operation %s: %v", o, mis))
			}
		}
		vrt.Quiesce()
		model0 = w.Model.Clone()
		if heldLocks != nil {
			lt := heldLocks
			vrt.SetLockObs(func(tid, kind int, addr uint64) {
				if kind == 0 {
					lt[tid] = append(lt[tid], addr)
				} else {
					l := lt[tid]
					for i := len(l) - 1; i >= 0; i-- {
						if l[i] == addr {
							lt[tid] = append(l[:i:i], l[i+1:]...)
							break
						}
					}
				}
			})
		}
		vrt.SetBranching(true)
		var ids []int
		for ci, ops := range a.Clients {
			ci, ops := ci, ops
			vars := w.Vars.Clone()
			ids = append(ids, vrt.Go(fmt.Sprintf("client%d", ci), vrt.ClClient, func() {
				for _, o := range ops {
					h, ok1 := vars.Resolve(o.H)
					h2, ok2 := vars.Resolve(o.H2)
					if o.H == "" {
						ok1 = true
					}
					if o.H2 == "" {
						ok2 = true
					}
					if !ok1 || !ok2 {
						continue // an earlier operation of this client failed to produce the handle
					}
					switch o.K {
					case "SHUTDOWN":
						w.Srv.ShutdownNfs()
						continue
					case "SRVCRASH":
						w.Srv.Crash() // the shrinker is told to stop after its current transaction, then shutdown
						continue
					case "STATS":
						w.Srv.WriteOpStats(io.Discard)
						w.Srv.ResetOpStats()
						continue
					}
					inv := vrt.Steps()
					r := fsx.Exec(w.Srv, o, h, h2)
					record(&hist, lin.Op{Client: ci, Inv: inv, Ret: vrt.Steps(), In: concIn{Op: o, H: h, H2: h2}, Out: concOut{R: r}})
					if r.OK() && r.FH != nil && (o.K == "CREATE" || o.K == "MKDIR" || o.K == "SYMLINK" || o.K == "LOOKUP") {
						vars.Bind(o.BindName(), r.FH)
					}
				}
			}))
		}
		vrt.Join(ids...)
		vrt.SetBranching(false)
		vrt.Quiesce() // background frees finish
		if a.NoLin {
			return
		}
		// structure, allocators and caches of the final state (C04/C05/C10 oracles on concurrent runs): read from the disk
		// and the server's state, before the dump through the API (which may trip over a damaged structure)
		fr := w.Fsck()
		for _, e := range fr.Errors {
			post = append(post, &report.Violation{Property: "C04", Sig: "concurrent|" + a.Name + "|" + ruleOf(e), Detail: e})
		}
		for _, e := range fr.Reclaim() {
			post = append(post, &report.Violation{Property: "C05", Sig: "concurrent|" + a.Name + "|" + ruleOf(e), Detail: e})
		}
		for _, e := range w.Audit(fr) {
			post = append(post, &report.Violation{Property: "C10", Sig: "concurrent|" + a.Name + "|" + ruleOf(e), Detail: e})
		}
		// the final state is part of the history
		d, err := fsx.Dump(w.Srv, probe)
		st := vrt.Steps() + 1
		es := ""
		if err != nil {
			es = err.Error()
		}
		hist = append(hist, lin.Op{Client: 99, Inv: st, Ret: st, In: concIn{Dump: true}, Out: concOut{Dump: d, Err: es}})
	})
	// outcome key: replies per client in program order
	sorted := append([]lin.Op{}, hist...)
	sort.SliceStable(sorted, func(i, j int) bool { return sorted[i].Client < sorted[j].Client })
	var ks []string
	for _, h := range sorted {
		in, out := h.In.(concIn), h.Out.(concOut)
		if in.Dump {
			var ps []string
			for p, n := range out.Dump {
				ps = append(ps, fmt.Sprintf("%s:%d:%d:%s", p, n.Kind, n.Size, n.Data))
			}
			sort.Strings(ps)
			ks = append(ks, "final{"+strings.Join(ps, " ")+"}"+out.Err)
		} else {
			ks = append(ks, fmt.Sprintf("c%d:%s=>%s", h.Client, in.Op.K, out.R.Brief()))
		}
	}
	outc.Key = strings.Join(ks, " | ")
	if res.Pruned {
		return res, outc
	}
	if v := VerdictViolation(&res, "C03", a.Name); v != nil {
		for _, pv := range post {
			if a.Prefer != "" && pv.Property == a.Prefer {
				outc.Viol = pv // (the final dump crashed on a structure that the calling check's oracle had already judged)
				return res, outc
			}
		}
		if res.Verdict == vrt.VDeadlock || res.Verdict == vrt.VHorizon {
			v.Property = "C06"
		}
		if res.Verdict == vrt.VDeadlock && !vrt.RecordSites {
			// identify the deadlock by the call sites of the threads on the wait-for cycle:
			// re-run the same schedule recording wait sites and inode-lock events
			vrt.RecordSites = true
			pre := make([]int, len(res.Points))
			for i, p := range res.Points {
				pre[i] = p.Chosen
			}
			c2 := cfg
			c2.Prefix, c2.Visited = pre, nil
			heldLocks = map[int][]uint64{}
			r2, _ := concHarness(raw, c2)
			vrt.RecordSites = false
			if r2.Verdict == vrt.VDeadlock {
				v.Sig = "deadlock|" + deadlockSites(r2.Threads, heldLocks)
				v.Detail = "harness " + a.Name + "\nno enabled thread:\n" + strings.Join(r2.Threads, "\n")
			}
			heldLocks = nil
		}
		outc.Viol = v
		return res, outc
	}
	if a.NoLin {
		return res, outc
	}
	// (the structural / reclaim / cache oracles of the final state belong to other properties than the linearizability
	// of the history: a check that runs the harnesses for its own property gets that verdict first)
	for _, pv := range post {
		if a.Prefer != "" && pv.Property == a.Prefer {
			outc.Viol = pv
			return res, outc
		}
	}
	if ok, _ := lin.Check(linFS{model0, probe}, hist); !ok {
		var lines []string
		for _, h := range hist {
			in, out := h.In.(concIn), h.Out.(concOut)
			if in.Dump {
				lines = append(lines, fmt.Sprintf("  [%d] final dump: %s %s", h.Inv, strings.ReplaceAll(fsx.DumpString(out.Dump), "\n", "; "), out.Err))
			} else {
				lines = append(lines, fmt.Sprintf("  client %d [%d..%d] %s => %s", h.Client, h.Inv, h.Ret, in.Op, out.R.Brief()))
			}
		}
		var kinds []string
		for _, c := range a.Clients {
			for _, o := range c {
				kinds = append(kinds, o.K)
			}
		}
		outc.Viol = &report.Violation{Property: "C03", Sig: "not-linearizable|" + a.Name + "|" + strings.Join(kinds, ","),
			Detail: "no sequential order of the operations (respecting real time) explains the replies and the final state:\n" + strings.Join(lines, "\n")}
		return res, outc
	}
	if len(post) > 0 {
		outc.Viol = post[0]
	}
	return res, outc
}

// record is //go:norace: the history is harness state, handed from thread to
// thread by the scheduler (which deliberately creates no happens-before edge in
// the -race build).
//
//go:norace
func record(h *[]lin.Op, op lin.Op) { *h = append(*h, op) }

func init() {
	RegisterHarness("nfs.conc", concHarness)
}

var invertedSetup = []fsx.Op{
	{K: "MKDIR", H: "root", N: "tmp"},
	{K: "MKDIR", H: "root", N: "d1"},
	{K: "MKDIR", H: "root", N: "d2"},
	{K: "RMDIR", H: "root", N: "tmp"},
	{K: "RESTART"},
}

// concHarnesses: all harnesses; VERIF_HARNESS=<name>[,<name>] (development aid) keeps only the named ones, after the
// two that the reduction cross-check of C03 always runs.
func concHarnesses() []concArg {
	all := concHarnessesAll()
	only := os.Getenv("VERIF_HARNESS")
	if only == "" {
		return all
	}
	out := append([]concArg{}, all[:2]...)
	for _, h := range all[2:] {
		for _, n := range strings.Split(only, ",") {
			if h.Name == n {
				out = append(out, h)
			}
		}
	}
	return out
}

func concHarnessesAll() []concArg {
	bigProbe := &fsx.Probe{Full: 1 << 20, Windows: []uint64{600 * 4096}}
	inv := func(more ...fsx.Op) []fsx.Op { return append(append([]fsx.Op{}, invertedSetup...), more...) }
	return []concArg{
		{Name: "create-create-lookup", DiskSize: 3000, Clients: [][]fsx.Op{
			{{K: "CREATE", H: "root", N: "a"}}, {{K: "CREATE", H: "root", N: "a"}}, {{K: "LOOKUP", H: "root", N: "a"}}}},
		{Name: "remove-create-getattr", DiskSize: 3000, Setup: []fsx.Op{{K: "CREATE", H: "root", N: "a"}}, Clients: [][]fsx.Op{
			{{K: "REMOVE", H: "root", N: "a"}}, {{K: "CREATE", H: "root", N: "a", As: "new"}}, {{K: "GETATTR", H: "root/a"}}}},
		{Name: "rename-over-remove-lookup-inverted", DiskSize: 3000,
			Setup: inv(fsx.Op{K: "CREATE", H: "root/d2", N: "b"}, fsx.Op{K: "CREATE", H: "root/d1", N: "a"}),
			Clients: [][]fsx.Op{
				{{K: "RENAME", H: "root/d1", N: "a", H2: "root/d2", N2: "b"}}, {{K: "REMOVE", H: "root/d2", N: "b"}}, {{K: "LOOKUP", H: "root/d2", N: "b"}}}},
		{Name: "rename-swap-one-dir", DiskSize: 3000, Setup: []fsx.Op{{K: "CREATE", H: "root", N: "a"}, {K: "CREATE", H: "root", N: "b"}}, Clients: [][]fsx.Op{
			{{K: "RENAME", H: "root", N: "a", H2: "root", N2: "b"}}, {{K: "RENAME", H: "root", N: "b", H2: "root", N2: "a"}}}},
		{Name: "rename-swap-two-dirs", DiskSize: 3000, Setup: inv(fsx.Op{K: "CREATE", H: "root/d1", N: "a"}, fsx.Op{K: "CREATE", H: "root/d2", N: "a"}), Clients: [][]fsx.Op{
			{{K: "RENAME", H: "root/d1", N: "a", H2: "root/d2", N2: "a"}}, {{K: "RENAME", H: "root/d2", N: "a", H2: "root/d1", N2: "a"}}}},
		{Name: "write-setattr-read", DiskSize: 3000, Setup: []fsx.Op{{K: "CREATE", H: "root", N: "f"}, {K: "WRITE", H: "root/f", Off: 0, Cnt: 8192, Pat: 0x11, Stable: 2}}, Clients: [][]fsx.Op{
			{{K: "WRITE", H: "root/f", Off: 0, Cnt: 8192, Pat: 0x22, Stable: 2}}, {{K: "SETATTR", H: "root/f", Size: 100}}, {{K: "READ", H: "root/f", Off: 0, Cnt: 8192}}}},
		{Name: "write-remove", DiskSize: 3000, Setup: []fsx.Op{{K: "CREATE", H: "root", N: "f"}}, Clients: [][]fsx.Op{
			{{K: "WRITE", H: "root/f", Off: 0, Cnt: 5000, Pat: 0x22, Stable: 0}}, {{K: "REMOVE", H: "root", N: "f"}}, {{K: "CREATE", H: "root", N: "g"}}}},
		{Name: "readdirplus-create-remove", DiskSize: 3000, Setup: []fsx.Op{{K: "MKDIR", H: "root", N: "d"}, {K: "CREATE", H: "root/d", N: "y"}, {K: "CREATE", H: "root/d", N: "z"}}, Clients: [][]fsx.Op{
			{{K: "READDIRPLUS", H: "root/d", DirCnt: 1 << 20, MaxCnt: 1 << 20}}, {{K: "CREATE", H: "root/d", N: "x"}}, {{K: "REMOVE", H: "root/d", N: "y"}}}},
		{Name: "readdirplus-write-setattr", DiskSize: 3000, Setup: []fsx.Op{{K: "MKDIR", H: "root", N: "d"}, {K: "CREATE", H: "root/d", N: "y"}}, Clients: [][]fsx.Op{
			{{K: "READDIRPLUS", H: "root/d", DirCnt: 1 << 20, MaxCnt: 1 << 20}}, {{K: "WRITE", H: "root/d/y", Off: 0, Cnt: 100, Pat: 0x36, Stable: 2}}, {{K: "SETATTR", H: "root/d/y", Size: 50}}}},
		{Name: "readdirplus-parent-child-inverted", DiskSize: 3000, Setup: inv(fsx.Op{K: "MKDIR", H: "root/d2", N: "sub"}, fsx.Op{K: "CREATE", H: "root/d2/sub", N: "x"}), Clients: [][]fsx.Op{
			{{K: "READDIRPLUS", H: "root/d2", DirCnt: 1 << 20, MaxCnt: 1 << 20}}, {{K: "READDIRPLUS", H: "root/d2/sub", DirCnt: 1 << 20, MaxCnt: 1 << 20}}, {{K: "LOOKUP", H: "root/d2/sub", N: ".."}}}},
		{Name: "lookupdotdot-rmdir-mkdir", DiskSize: 3000, Setup: []fsx.Op{{K: "MKDIR", H: "root", N: "d"}}, Clients: [][]fsx.Op{
			{{K: "LOOKUP", H: "root/d", N: ".."}}, {{K: "RMDIR", H: "root", N: "d"}}, {{K: "MKDIR", H: "root", N: "e"}}}},
		{Name: "truncate-write-remove-big", DiskSize: 3000, Probe: bigProbe, Setup: []fsx.Op{{K: "CREATE", H: "root", N: "big"}, {K: "WRITE", H: "root/big", Off: 600 * 4096, Cnt: 1, Pat: 0x31, Stable: 2}}, Clients: [][]fsx.Op{
			{{K: "SETATTR", H: "root/big", Size: 0}}, {{K: "WRITE", H: "root/big", Off: 0, Cnt: 100, Pat: 0x32, Stable: 2}}, {{K: "REMOVE", H: "root", N: "big"}}}},
		{Name: "truncate-nonzero-remove-big", DiskSize: 3000, Probe: bigProbe, Setup: []fsx.Op{{K: "CREATE", H: "root", N: "big"}, {K: "WRITE", H: "root/big", Off: 0, Cnt: 5 * 4096, Pat: 0x30, Stable: 2}, {K: "WRITE", H: "root/big", Off: 600 * 4096, Cnt: 1, Pat: 0x31, Stable: 2}}, Clients: [][]fsx.Op{
			{{K: "SETATTR", H: "root/big", Size: 3 * 4096}}, {{K: "REMOVE", H: "root", N: "big"}}, {{K: "GETATTR", H: "root/big"}}}},
		{Name: "removebig-create-reuse", DiskSize: 3000, Probe: bigProbe, Setup: []fsx.Op{{K: "CREATE", H: "root", N: "big"}, {K: "WRITE", H: "root/big", Off: 600 * 4096, Cnt: 1, Pat: 0x31, Stable: 2}, {K: "RESTART"}}, Clients: [][]fsx.Op{
			{{K: "REMOVE", H: "root", N: "big"}}, {{K: "CREATE", H: "root", N: "c"}}, {{K: "CREATE", H: "root", N: "e"}}}},
		{Name: "stale-dir-handle-reuse", DiskSize: 3000, Setup: []fsx.Op{{K: "MKDIR", H: "root", N: "d"}, {K: "RMDIR", H: "root", N: "d"}, {K: "RESTART"}}, Clients: [][]fsx.Op{
			{{K: "MKDIR", H: "root", N: "d2"}}, {{K: "CREATE", H: "dead:root/d", N: "x"}, {K: "LOOKUP", H: "root", N: "d2"}}, {{K: "GETATTR", H: "dead:root/d"}, {K: "READDIR", H: "root", Cnt: 1 << 20}}}},
		{Name: "rename-over-rename-create", DiskSize: 3000, Setup: []fsx.Op{{K: "CREATE", H: "root", N: "a"}, {K: "CREATE", H: "root", N: "b"}}, Clients: [][]fsx.Op{
			{{K: "RENAME", H: "root", N: "a", H2: "root", N2: "b"}}, {{K: "RENAME", H: "root", N: "b", H2: "root", N2: "c"}, {K: "CREATE", H: "root", N: "b", As: "b2"}}}},
		{Name: "shrinkhelp-write-remove-create", DiskSize: 3000, Probe: bigProbe, Setup: []fsx.Op{{K: "CREATE", H: "root", N: "big"}, {K: "WRITE", H: "root/big", Off: 600 * 4096, Cnt: 1, Pat: 0x31, Stable: 2}, {K: "RESTART"}}, Clients: [][]fsx.Op{
			{{K: "SETATTR", H: "root/big", Size: 0}}, {{K: "WRITE", H: "root/big", Off: 0, Cnt: 4, Pat: 0x57, Stable: 2}}, {{K: "REMOVE", H: "root", N: "big"}, {K: "CREATE", H: "root", N: "y"}}}},
		{Name: "mkdir-rmdir-renamedir", DiskSize: 3000, Setup: []fsx.Op{{K: "MKDIR", H: "root", N: "d"}, {K: "MKDIR", H: "root", N: "e"}}, Clients: [][]fsx.Op{
			{{K: "MKDIR", H: "root/d", N: "sub"}}, {{K: "RMDIR", H: "root", N: "d"}}, {{K: "RENAME", H: "root", N: "e", H2: "root", N2: "d"}}}},
		{Name: "symlink-readlink-remove", DiskSize: 3000, Setup: []fsx.Op{{K: "SYMLINK", H: "root", N: "s", Target: "old-target"}}, Clients: [][]fsx.Op{
			{{K: "REMOVE", H: "root", N: "s"}, {K: "SYMLINK", H: "root", N: "s", Target: "new", As: "s2"}}, {{K: "READLINK", H: "root/s"}}, {{K: "LOOKUP", H: "root", N: "s", As: "l"}, {K: "READLINK", H: "l"}}}},
		{Name: "unstable-write-commit-read", DiskSize: 3000, Setup: []fsx.Op{{K: "CREATE", H: "root", N: "f"}}, Clients: [][]fsx.Op{
			{{K: "WRITE", H: "root/f", Off: 0, Cnt: 5000, Pat: 0x51, Stable: 0}, {K: "COMMIT", H: "root/f"}}, {{K: "WRITE", H: "root/f", Off: 4000, Cnt: 200, Pat: 0x52, Stable: 0}}, {{K: "READ", H: "root/f", Off: 3900, Cnt: 400}, {K: "GETATTR", H: "root/f"}}}},
		{Name: "readdir-create-create", DiskSize: 3000, Setup: []fsx.Op{{K: "MKDIR", H: "root", N: "d"}, {K: "CREATE", H: "root/d", N: "p"}}, Clients: [][]fsx.Op{
			{{K: "READDIR", H: "root/d", Cnt: 1 << 20}}, {{K: "CREATE", H: "root/d", N: "x"}, {K: "REMOVE", H: "root/d", N: "p"}}, {{K: "SYMLINK", H: "root/d", N: "y", Target: "t"}}}},
		{Name: "create-write-lookup-read", DiskSize: 3000, Clients: [][]fsx.Op{
			{{K: "CREATE", H: "root", N: "n"}, {K: "WRITE", H: "root/n", Off: 0, Cnt: 100, Pat: 0x53, Stable: 2}}, {{K: "LOOKUP", H: "root", N: "n", As: "l"}, {K: "READ", H: "l", Off: 0, Cnt: 100}}}},
		// a name whose inode number is below its directory's (recycled number): REMOVE takes the abort / ordered re-lock
		// path, and in its gap the name is re-bound to a new object
		{Name: "remove-inverted-rename-create", DiskSize: 3000, Setup: inv(fsx.Op{K: "CREATE", H: "root/d2", N: "x"}), Clients: [][]fsx.Op{
			{{K: "REMOVE", H: "root/d2", N: "x"}}, {{K: "RENAME", H: "root/d2", N: "x", H2: "root/d2", N2: "z"}, {K: "CREATE", H: "root/d2", N: "x", As: "x2"}}}},
		{Name: "lookup-inverted-rename-create", DiskSize: 3000, Setup: inv(fsx.Op{K: "CREATE", H: "root/d2", N: "x"}), Clients: [][]fsx.Op{
			{{K: "LOOKUP", H: "root/d2", N: "x", As: "l"}, {K: "GETATTR", H: "l"}}, {{K: "RENAME", H: "root/d2", N: "x", H2: "root/d2", N2: "z"}, {K: "MKDIR", H: "root/d2", N: "x", As: "x2"}}}},
		// one directory, the renamed file's number below the directory's, the target above: the target disappears
		// after RENAME's first pass while its ordered locking pass already holds the lower numbers
		{Name: "rename-over-remove-one-dir-inverted", DiskSize: 3000, Setup: inv(fsx.Op{K: "CREATE", H: "root/d2", N: "a"}, fsx.Op{K: "CREATE", H: "root/d2", N: "b"}), Clients: [][]fsx.Op{
			{{K: "RENAME", H: "root/d2", N: "a", H2: "root/d2", N2: "b"}}, {{K: "REMOVE", H: "root/d2", N: "b"}}, {{K: "LOOKUP", H: "root/d2", N: "a"}}}},
		// RENAME over an existing target aborts and re-locks; in that gap another client's request aborts after having
		// modified the directory (its cached inode is dropped) and a further one updates the directory
		{Name: "rename-over-abort-create-one-dir", DiskSize: 3000, Setup: []fsx.Op{{K: "MKDIR", H: "root", N: "d"}, {K: "CREATE", H: "root/d", N: "a"}, {K: "CREATE", H: "root/d", N: "b"}}, Clients: [][]fsx.Op{
			{{K: "RENAME", H: "root/d", N: "a", H2: "root/d", N2: "b"}}, {{K: "CREATE", H: "root/d", N: nameOfLen(200, 'q')}, {K: "CREATE", H: "root/d", N: "c"}, {K: "LOOKUP", H: "root/d", N: "a"}}}},
		{Name: "rename-over-abort-create-two-dirs", DiskSize: 3000, Setup: inv(fsx.Op{K: "CREATE", H: "root/d1", N: "a"}, fsx.Op{K: "CREATE", H: "root/d2", N: "b"}), Clients: [][]fsx.Op{
			{{K: "RENAME", H: "root/d1", N: "a", H2: "root/d2", N2: "b"}}, {{K: "MKDIR", H: "root/d2", N: nameOfLen(200, 'q')}, {K: "CREATE", H: "root/d2", N: "c"}}, {{K: "SYMLINK", H: "root/d1", N: nameOfLen(200, 'q'), Target: "t"}, {K: "CREATE", H: "root/d1", N: "c"}}}},
		// a write beyond the old end of a file whose truncation is still being finished in the background
		{Name: "truncate-writebeyond-big", DiskSize: 3000, Probe: bigProbe, Setup: []fsx.Op{{K: "CREATE", H: "root", N: "big"}, {K: "WRITE", H: "root/big", Off: 0, Cnt: 5 * 4096, Pat: 0x30, Stable: 2}, {K: "WRITE", H: "root/big", Off: 600 * 4096, Cnt: 1, Pat: 0x31, Stable: 2}}, Clients: [][]fsx.Op{
			{{K: "SETATTR", H: "root/big", Size: 0}}, {{K: "WRITE", H: "root/big", Off: 700 * 4096, Cnt: 1, Pat: 0x33, Stable: 2}, {K: "READ", H: "root/big", Off: 0, Cnt: 8192}}}},
		// a full disk: the WRITE fails at its first allocation (nothing modified, the cached inode stays shared)
		{Name: "fulldisk-write-setattr", DiskSize: 1539 + 1 + 6, ImplFail: true, Setup: []fsx.Op{{K: "CREATE", H: "root", N: "g"}, {K: "FILL"}}, Clients: [][]fsx.Op{
			{{K: "WRITE", H: "root/g", Off: 0, Cnt: 4096, Pat: 0x35, Stable: 2}}, {{K: "SETATTR", H: "root/g", NoSize: true, Mtime: 555}, {K: "SETATTR", H: "root/filler", Size: 0}}, {{K: "GETATTR", H: "root/g"}}}},
		// a full disk: the only block that a WRITE can get is the one a REMOVE is giving back - it must not be handed out
		// before the REMOVE is committed, and what the WRITE stored must be readable afterwards
		{Name: "fulldisk-remove-write-read", DiskSize: 1539 + 1 + 6, ImplFail: true, Setup: []fsx.Op{{K: "CREATE", H: "root", N: "g"}, {K: "CREATE", H: "root", N: "h"},
			{K: "WRITE", H: "root/h", Off: 0, Cnt: 4096, Pat: 0x36, Stable: 2}, {K: "FILL"}}, Clients: [][]fsx.Op{
			{{K: "REMOVE", H: "root", N: "h"}}, {{K: "WRITE", H: "root/g", Off: 0, Cnt: 4096, Pat: 0x37, Stable: 2}, {K: "READ", H: "root/g", Off: 0, Cnt: 4096}}}},
		// a half-freed inode (the server's own Crash() stopped the background free): the first CREATE is handed its number,
		// aborts, finishes the free in the foreground and starts again - while another CREATE of the same name runs
		{Name: "create-create-halffreed", DiskSize: 3000, Probe: bigProbe, Setup: append(append([]fsx.Op{}, big530Setup...), fsx.Op{K: "REMOVE", H: "root", N: "big"}, fsx.Op{K: "SHRINKCRASH"}), Clients: [][]fsx.Op{
			{{K: "CREATE", H: "root", N: "n"}}, {{K: "CREATE", H: "root", N: "n", As: "n2"}}, {{K: "LOOKUP", H: "root", N: "n", As: "l"}}}},
		// a request waits for an inode lock while the inode cache (four slots) turns over and a third request on the same inode overtakes it
		{Name: "eviction-contended", DiskSize: 3000, ICacheSz: 4, Setup: []fsx.Op{{K: "CREATE", H: "root", N: "a"}, {K: "CREATE", H: "root", N: "b"}, {K: "CREATE", H: "root", N: "c"}, {K: "CREATE", H: "root", N: "e"}, {K: "CREATE", H: "root", N: "f"}, {K: "CREATE", H: "root", N: "g"}}, Clients: [][]fsx.Op{
			{{K: "WRITE", H: "root/b", Off: 0, Cnt: 10, Pat: 0x41, Stable: 2}, {K: "WRITE", H: "root/b", Off: 200, Cnt: 10, Pat: 0x43, Stable: 2}}, {{K: "WRITE", H: "root/b", Off: 100, Cnt: 10, Pat: 0x42, Stable: 2}},
			{{K: "GETATTR", H: "root/a"}, {K: "GETATTR", H: "root/c"}, {K: "GETATTR", H: "root/e"}, {K: "GETATTR", H: "root/f"}, {K: "GETATTR", H: "root/g"}}}},
		{Name: "eviction", DiskSize: 3000, ICacheSz: 6, Setup: []fsx.Op{{K: "CREATE", H: "root", N: "a"}, {K: "CREATE", H: "root", N: "b"}, {K: "CREATE", H: "root", N: "c"}, {K: "MKDIR", H: "root", N: "d"}, {K: "CREATE", H: "root/d", N: "e"}, {K: "CREATE", H: "root/d", N: "f"}}, Clients: [][]fsx.Op{
			{{K: "GETATTR", H: "root/a"}, {K: "WRITE", H: "root/b", Off: 0, Cnt: 10, Pat: 0x41, Stable: 2}}, {{K: "LOOKUP", H: "root/d", N: "e"}, {K: "GETATTR", H: "root/b"}}, {{K: "RENAME", H: "root/d", N: "f", H2: "root", N2: "c"}, {K: "LOOKUP", H: "root", N: "c"}}}},
		// a RENAME that is refused after it has taken the source name out in memory (the target "directory" is a file):
		// nobody may ever see the name missing - neither while the request gives up its locks nor afterwards
		{Name: "rename-refused-lookup-remove", DiskSize: 3000, Setup: []fsx.Op{{K: "CREATE", H: "root", N: "a"}, {K: "CREATE", H: "root", N: "f"}}, Clients: [][]fsx.Op{
			{{K: "RENAME", H: "root", N: "a", H2: "root/f", N2: "x"}}, {{K: "LOOKUP", H: "root", N: "a", As: "l"}}, {{K: "REMOVE", H: "root", N: "a"}, {K: "CREATE", H: "root", N: "a", As: "a2"}}}},
		{Name: "rename-refused-two-dirs", DiskSize: 3000, Setup: []fsx.Op{{K: "MKDIR", H: "root", N: "d"}, {K: "CREATE", H: "root/d", N: "a"}, {K: "CREATE", H: "root", N: "f"}}, Clients: [][]fsx.Op{
			{{K: "RENAME", H: "root/d", N: "a", H2: "root/f", N2: "x"}, {K: "LOOKUP", H: "root/d", N: "a", As: "l1"}}, {{K: "READDIR", H: "root/d", Cnt: 1 << 20}, {K: "REMOVE", H: "root/d", N: "a"}}}},
	}
}

// heldLocks, when non-nil, collects per thread the inode locks requested and not yet released.
var heldLocks map[int][]uint64

// deadlockSites: the go-nfsd call sites at which the threads on the wait-for
// cycle are blocked - a stable identity of the deadlock (bystanders that merely
// queue behind the cycle are left out).
func deadlockSites(threads []string, lt map[int][]uint64) string {
	site := map[int]string{}
	waiting := map[int]uint64{} // tid -> inode lock it is blocked on
	for _, t := range threads {
		i := strings.Index(t, "@")
		if i < 0 || strings.Contains(t, "(daemon)") || strings.Contains(t, "(main)") {
			continue
		}
		var tid int
		fmt.Sscanf(t, "%d(", &tid)
		var fr []string
		for _, f := range strings.Split(t[i+1:], "<") {
			name := f
			if j := strings.LastIndex(name, ":"); j >= 0 {
				name = name[:j]
			}
			if strings.HasPrefix(name, "nfs.") || strings.HasPrefix(name, "dir.") || strings.HasPrefix(name, "shrinker.") || strings.HasPrefix(name, "inode.") {
				fr = append(fr, name)
				if len(fr) == 2 {
					break
				}
			}
		}
		site[tid] = strings.Join(fr, "<")
		if strings.Contains(t, "lockShard).acquire") && len(lt[tid]) > 0 {
			waiting[tid] = lt[tid][len(lt[tid])-1]
		}
	}
	holder := func(addr uint64, except int) int {
		for tid, l := range lt {
			if tid == except {
				continue
			}
			for i, a := range l {
				if a == addr && !(i == len(l)-1 && waiting[tid] == addr) {
					return tid
				}
			}
		}
		return -1
	}
	// follow wait-for edges from every blocked thread until a thread repeats
	for start := range waiting {
		seen := map[int]int{}
		var path []int
		cur := start
		for {
			if at, ok := seen[cur]; ok {
				var sites []string
				uniq := map[string]bool{}
				for _, tid := range path[at:] {
					if !uniq[site[tid]] {
						uniq[site[tid]] = true
						sites = append(sites, site[tid])
					}
				}
				sort.Strings(sites)
				return "cycle: " + strings.Join(sites, " & ")
			}
			seen[cur] = len(path)
			path = append(path, cur)
			addr, ok := waiting[cur]
			if !ok {
				break
			}
			h := holder(addr, cur)
			if h < 0 {
				break
			}
			cur = h
		}
	}
	var sites []string
	for _, s := range site {
		sites = append(sites, s)
	}
	sort.Strings(sites)
	return strings.Join(sites, " & ")
}
