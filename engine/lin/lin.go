// Package lin is a brute-force linearizability checker for the short histories
// (<= ~10 operations) the harnesses produce: it enumerates every sequential
// order consistent with the real-time order and replays it on the reference
// model.
package lin

type Op struct {
	Client int
	Inv    int // global step at invocation
	Ret    int // global step at return
	In     interface{}
	Out    interface{}
}

type Model interface {
	Clone() Model
	// Step applies the operation and reports whether out is what the model allows.
	Step(in, out interface{}) bool
}

// Check reports whether ops are linearizable from init; on success it returns
// one witness order (indices into ops).
func Check(init Model, ops []Op) (bool, []int) {
	n := len(ops)
	done := make([]bool, n)
	order := make([]int, 0, n)
	var rec func(m Model) bool
	rec = func(m Model) bool {
		if len(order) == n {
			return true
		}
		// minimal return time among pending ops: an op may go next only if it was
		// invoked before every pending op's return
		minRet := int(^uint(0) >> 1)
		for i := 0; i < n; i++ {
			if !done[i] && ops[i].Ret < minRet {
				minRet = ops[i].Ret
			}
		}
		for i := 0; i < n; i++ {
			if done[i] || ops[i].Inv > minRet {
				continue
			}
			m2 := m.Clone()
			if !m2.Step(ops[i].In, ops[i].Out) {
				continue
			}
			done[i] = true
			order = append(order, i)
			if rec(m2) {
				return true
			}
			order = order[:len(order)-1]
			done[i] = false
		}
		return false
	}
	ok := rec(init)
	return ok, order
}
