// Package fsck is the independent checker of the on-disk structure (C04), the
// reclaim audit (C05) and the layout arithmetic (C15).  It decodes blocks
// itself (little-endian, as marshal does) and reads through a block reader
// supplied by the caller: the logical disk of a crash image, or the running
// server's log-aware read.
package fsck

import (
	"encoding/binary"
	"fmt"
	"sort"
)

const (
	BS        = 4096
	LogBlocks = 513
	NInodeBlk = 1024
	InodeSz   = 128
	NDirect   = 8
	NPtr      = 512
	DirEntSz  = 128
	NameMax   = 112
)

type Layout struct {
	Size         uint64
	NBlockBitmap uint64
	BlockBitmap  uint64 // first block of the block bitmap
	InodeBitmap  uint64
	InodeStart   uint64
	DataStart    uint64
	NInode       uint64
}

func LayoutFor(size uint64) Layout {
	nbb := size/(BS*8) + 1
	l := Layout{Size: size, NBlockBitmap: nbb, BlockBitmap: LogBlocks}
	l.InodeBitmap = l.BlockBitmap + nbb
	l.InodeStart = l.InodeBitmap + 1
	l.DataStart = l.InodeStart + NInodeBlk
	l.NInode = NInodeBlk * (BS / InodeSz)
	return l
}

type Inode struct {
	Inum       uint64
	Kind       uint32
	Nlink      uint32
	Gen        uint64
	Size       uint64
	ShrinkSize uint64
	Atime      [2]uint32
	Mtime      [2]uint32
	Blks       [10]uint64
}

func DecodeInode(b []byte, inum uint64) Inode {
	le := binary.LittleEndian
	ip := Inode{Inum: inum}
	ip.Kind = le.Uint32(b[0:])
	ip.Nlink = le.Uint32(b[4:])
	ip.Gen = le.Uint64(b[8:])
	ip.Size = le.Uint64(b[16:])
	ip.ShrinkSize = le.Uint64(b[24:])
	ip.Atime = [2]uint32{le.Uint32(b[32:]), le.Uint32(b[36:])}
	ip.Mtime = [2]uint32{le.Uint32(b[40:]), le.Uint32(b[44:])}
	for i := 0; i < 10; i++ {
		ip.Blks[i] = le.Uint64(b[48+8*i:])
	}
	return ip
}

type Result struct {
	Errors    []string          // "rule: detail"
	InUse     map[uint64]Inode  // inodes with kind != 0
	Owned     map[uint64]uint64 // block -> owning inode (all inodes, incl. half-freed ones)
	Reachable map[uint64]bool   // inodes reachable from the root
	BlockBits map[uint64]bool   // data-region bits set in the block bitmap
	InodeBits map[uint64]bool
	Dirs      map[uint64]map[string]DirEnt
	Layout    Layout
}

type DirEnt struct {
	Inum uint64
	Off  uint64
}

func (r *Result) errf(rule, f string, a ...interface{}) {
	if len(r.Errors) < 50 {
		r.Errors = append(r.Errors, rule+": "+fmt.Sprintf(f, a...))
	}
}

func isZero(b []byte) bool {
	for _, x := range b {
		if x != 0 {
			return false
		}
	}
	return true
}

func ceilDiv(a, b uint64) uint64 { return (a + b - 1) / b }

// Check runs the structural check.
func Check(get func(uint64) []byte, size uint64) *Result {
	L := LayoutFor(size)
	r := &Result{InUse: map[uint64]Inode{}, Owned: map[uint64]uint64{}, Reachable: map[uint64]bool{},
		BlockBits: map[uint64]bool{}, InodeBits: map[uint64]bool{}, Dirs: map[uint64]map[string]DirEnt{}, Layout: L}
	// bitmaps
	for bb := uint64(0); bb < L.NBlockBitmap; bb++ {
		blk := get(L.BlockBitmap + bb)
		for i := uint64(0); i < BS*8; i++ {
			set := blk[i/8]&(1<<(i%8)) != 0
			bn := bb*BS*8 + i
			inData := bn >= L.DataStart && bn < size
			if set && inData {
				r.BlockBits[bn] = true
			}
			if !set && !inData {
				r.errf("bitmap-nondata-clear", "block %d is outside the data region [%d,%d) but marked free", bn, L.DataStart, size)
			}
		}
	}
	ib := get(L.InodeBitmap)
	for i := uint64(0); i < L.NInode; i++ {
		if ib[i/8]&(1<<(i%8)) != 0 {
			r.InodeBits[i] = true
		}
	}
	if !r.InodeBits[0] || !r.InodeBits[1] {
		r.errf("inode-bitmap-reserved", "inode 0 or 1 not marked in use")
	}
	validPtr := func(b uint64) bool { return b == 0 || (b >= L.DataStart && b < size) }
	own := func(b, inum uint64, what string) bool {
		if !validPtr(b) {
			r.errf("pointer-out-of-range", "inode %d %s points to block %d outside [%d,%d)", inum, what, b, L.DataStart, size)
			return false
		}
		if b == 0 {
			return false
		}
		if o, ok := r.Owned[b]; ok {
			r.errf("block-two-owners", "block %d owned by inode %d and inode %d (%s)", b, o, inum, what)
			return false
		}
		r.Owned[b] = inum
		return true
	}
	// inodes
	inodes := map[uint64]Inode{}
	for ibk := uint64(0); ibk < NInodeBlk; ibk++ {
		blk := get(L.InodeStart + ibk)
		if isZero(blk) {
			continue
		}
		for j := uint64(0); j < BS/InodeSz; j++ {
			raw := blk[j*InodeSz : (j+1)*InodeSz]
			if isZero(raw) {
				continue
			}
			inum := ibk*(BS/InodeSz) + j
			ip := DecodeInode(raw, inum)
			inodes[inum] = ip
			if ip.Kind != 0 {
				r.InUse[inum] = ip
			}
		}
	}
	for i := uint64(2); i < L.NInode; i++ {
		_, used := r.InUse[i]
		if used != r.InodeBits[i] {
			r.errf("inode-bitmap-mismatch", "inode %d: kind!=free is %v but bitmap bit is %v", i, used, r.InodeBits[i])
		}
	}
	if rt, ok := r.InUse[1]; !ok || rt.Kind != 2 {
		r.errf("root-missing", "inode 1 is not a directory")
		return r
	}
	// block ownership (every inode that has pointers, free or not)
	var inums []uint64
	for i := range inodes {
		inums = append(inums, i)
	}
	sort.Slice(inums, func(i, j int) bool { return inums[i] < inums[j] })
	for _, inum := range inums {
		ip := inodes[inum]
		limit := ceilDiv(ip.Size, BS)
		if ip.ShrinkSize > limit {
			limit = ip.ShrinkSize
		}
		if ip.Kind == 0 {
			limit = ip.ShrinkSize // a free inode owns blocks only while half-freed
			if ceilDiv(ip.Size, BS) >= ip.ShrinkSize {
				limit = 0
			}
		}
		check := func(idx, b uint64) {
			if b != 0 && idx >= limit {
				r.errf("block-beyond-size", "inode %d (kind %d size %d shrinksize %d) has block %d at index %d", inum, ip.Kind, ip.Size, ip.ShrinkSize, b, idx)
			}
		}
		for i := uint64(0); i < NDirect; i++ {
			if own(ip.Blks[i], inum, fmt.Sprintf("direct[%d]", i)) {
				check(i, ip.Blks[i])
			}
		}
		if own(ip.Blks[8], inum, "indirect") {
			if limit <= NDirect {
				r.errf("block-beyond-size", "inode %d (size %d shrinksize %d) has an indirect block", inum, ip.Size, ip.ShrinkSize)
			}
			ind := get(ip.Blks[8])
			for i := uint64(0); i < NPtr; i++ {
				b := binary.LittleEndian.Uint64(ind[8*i:])
				if own(b, inum, fmt.Sprintf("indirect[%d]", i)) {
					check(NDirect+i, b)
				}
			}
		}
		if own(ip.Blks[9], inum, "dindirect") {
			if limit <= NDirect+NPtr {
				r.errf("block-beyond-size", "inode %d (size %d shrinksize %d) has a double-indirect block", inum, ip.Size, ip.ShrinkSize)
			}
			d1 := get(ip.Blks[9])
			for i := uint64(0); i < NPtr; i++ {
				b1 := binary.LittleEndian.Uint64(d1[8*i:])
				if !own(b1, inum, fmt.Sprintf("dindirect[%d]", i)) {
					continue
				}
				if NDirect+NPtr+i*NPtr >= limit {
					r.errf("block-beyond-size", "inode %d has index block for range beyond its size", inum)
				}
				d2 := get(b1)
				for j := uint64(0); j < NPtr; j++ {
					b := binary.LittleEndian.Uint64(d2[8*j:])
					if own(b, inum, fmt.Sprintf("dindirect[%d][%d]", i, j)) {
						check(NDirect+NPtr+i*NPtr+j, b)
					}
				}
			}
		}
	}
	for b, o := range r.Owned {
		if !r.BlockBits[b] {
			r.errf("owned-block-marked-free", "block %d owned by inode %d is free in the bitmap", b, o)
		}
	}
	// block lookup for directory reads
	bmap := func(ip Inode, bn uint64) uint64 {
		switch {
		case bn < NDirect:
			return ip.Blks[bn]
		case bn < NDirect+NPtr:
			if !validPtr(ip.Blks[8]) || ip.Blks[8] == 0 {
				return 0
			}
			return binary.LittleEndian.Uint64(get(ip.Blks[8])[8*(bn-NDirect):])
		default:
			off := bn - NDirect - NPtr
			if !validPtr(ip.Blks[9]) || ip.Blks[9] == 0 || off/NPtr >= NPtr {
				return 0
			}
			b1 := binary.LittleEndian.Uint64(get(ip.Blks[9])[8*(off/NPtr):])
			if !validPtr(b1) || b1 == 0 {
				return 0
			}
			return binary.LittleEndian.Uint64(get(b1)[8*(off%NPtr):])
		}
	}
	// tree walk
	var walk func(inum, parent uint64, depth int)
	walk = func(inum, parent uint64, depth int) {
		ip := r.InUse[inum]
		r.Reachable[inum] = true
		if ip.Kind != 2 {
			return
		}
		if depth > 200 {
			r.errf("dir-cycle", "directory nesting deeper than 200 at inode %d", inum)
			return
		}
		if ip.Size%DirEntSz != 0 {
			r.errf("dir-size", "directory %d has size %d, not a multiple of %d", inum, ip.Size, DirEntSz)
		}
		ents := map[string]DirEnt{}
		r.Dirs[inum] = ents
		for off := uint64(0); off+DirEntSz <= ip.Size; off += DirEntSz {
			b := bmap(ip, off/BS)
			var raw []byte
			if b == 0 || !validPtr(b) {
				raw = make([]byte, DirEntSz) // hole: reads as zeros
			} else {
				raw = get(b)[off%BS : off%BS+DirEntSz]
			}
			ci := binary.LittleEndian.Uint64(raw[0:])
			nl := binary.LittleEndian.Uint64(raw[8:])
			if ci == 0 {
				continue
			}
			if nl == 0 || nl > NameMax {
				r.errf("dirent-name-length", "directory %d offset %d: name length %d", inum, off, nl)
				continue
			}
			name := string(raw[16 : 16+nl])
			if _, dup := ents[name]; dup {
				r.errf("dirent-duplicate-name", "directory %d has name %q twice", inum, name)
				continue
			}
			ents[name] = DirEnt{Inum: ci, Off: off}
			switch {
			case name == ".":
				if off != 0 || ci != inum {
					r.errf("dirent-dot", "directory %d: '.' at offset %d refers to %d", inum, off, ci)
				}
				continue
			case name == "..":
				if off != DirEntSz || ci != parent {
					r.errf("dirent-dotdot", "directory %d: '..' at offset %d refers to %d, parent is %d", inum, off, ci, parent)
				}
				continue
			}
			for _, c := range []byte(name) {
				if c == '/' || c == 0 {
					r.errf("dirent-name-char", "directory %d: name %q contains '/' or NUL", inum, name)
					break
				}
			}
			if _, ok := r.InUse[ci]; !ok {
				r.errf("dirent-dangling", "directory %d: %q refers to free inode %d", inum, name, ci)
				continue
			}
			if r.Reachable[ci] {
				r.errf("inode-two-names", "inode %d is reachable twice (second name %q in directory %d)", ci, name, inum)
				continue
			}
			walk(ci, inum, depth+1)
		}
		if _, ok := ents["."]; !ok {
			r.errf("dirent-dot", "directory %d lacks '.'", inum)
		}
		if _, ok := ents[".."]; !ok {
			r.errf("dirent-dotdot", "directory %d lacks '..'", inum)
		}
	}
	walk(1, 1, 0)
	for inum := range r.InUse {
		if !r.Reachable[inum] {
			ip := r.InUse[inum]
			r.errf("inode-orphan", "inode %d (kind %d nlink %d size %d) is in use but has no name", inum, ip.Kind, ip.Nlink, ip.Size)
		}
	}
	sort.Strings(r.Errors)
	return r
}

// Reclaim is the C05 audit on top of a structural check: the blocks and inodes
// marked in use are exactly those reachable from the root.  pending lists
// inodes that are legitimately half-freed (ShrinkSize beyond their size).
func (r *Result) Reclaim() []string {
	var errs []string
	reachBlocks := map[uint64]bool{}
	for b, o := range r.Owned {
		if r.Reachable[o] {
			reachBlocks[b] = true
		}
	}
	n := 0
	for b := range r.BlockBits {
		if !reachBlocks[b] {
			if n < 5 {
				o, owned := r.Owned[b]
				errs = append(errs, fmt.Sprintf("block-leaked: block %d is marked in use but not reachable from the root (owned by inode %d: %v)", b, o, owned))
			}
			n++
		}
	}
	if n > 5 {
		errs = append(errs, fmt.Sprintf("block-leaked: ... %d blocks in total", n))
	}
	for b := range reachBlocks {
		if !r.BlockBits[b] {
			errs = append(errs, fmt.Sprintf("block-free-but-reachable: block %d", b))
		}
	}
	for i := range r.InodeBits {
		if i >= 2 && !r.Reachable[i] {
			errs = append(errs, fmt.Sprintf("inode-leaked: inode %d is marked in use but not reachable from the root", i))
		}
	}
	sort.Strings(errs)
	return errs
}

// Rule extracts the rule id of an error string.
func Rule(e string) string {
	for i := 0; i < len(e); i++ {
		if e[i] == ':' {
			return e[:i]
		}
	}
	return e
}
