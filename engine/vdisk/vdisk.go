// Package vdisk is the recording copy-on-write disk the code under test runs
// on.  It implements disk.Disk (goose and primitive variants are structurally
// identical).  Read, Write and Barrier are scheduling points of the controlled
// execution; Write and Barrier are appended to an event log, from which the
// crash-image enumerator (crash.go) derives every disk state a crash could
// leave behind.
package vdisk

import (
	"crypto/sha256"
	"encoding/binary"
	"fmt"
	"sort"

	"github.com/mit-pdos/go-journal/vrt"
)

const BlockSize = 4096

var zeroBlock = make([]byte, BlockSize)

// Image is an immutable disk content: a chain of overlays.
type Image struct {
	parent *Image
	blocks map[uint64][]byte
	Size   uint64
	depth  int
}

func NewImage(size uint64) *Image {
	return &Image{Size: size, blocks: map[uint64][]byte{}}
}

func (im *Image) Get(a uint64) []byte {
	for i := im; i != nil; i = i.parent {
		if b, ok := i.blocks[a]; ok {
			return b
		}
	}
	return zeroBlock
}

// With returns a new image = im overlaid with blocks (which it takes ownership of).
func (im *Image) With(blocks map[uint64][]byte) *Image {
	n := &Image{parent: im, blocks: blocks, Size: im.Size, depth: im.depth + 1}
	if n.depth > 24 {
		return n.Flatten()
	}
	return n
}

func (im *Image) Flatten() *Image {
	all := map[uint64][]byte{}
	var chain []*Image
	for i := im; i != nil; i = i.parent {
		chain = append(chain, i)
	}
	for k := len(chain) - 1; k >= 0; k-- {
		for a, b := range chain[k].blocks {
			all[a] = b
		}
	}
	return &Image{blocks: all, Size: im.Size}
}

// Addrs returns every address that has (possibly) non-zero content, sorted.
func (im *Image) Addrs() []uint64 {
	seen := map[uint64]bool{}
	for i := im; i != nil; i = i.parent {
		for a := range i.blocks {
			seen[a] = true
		}
	}
	out := make([]uint64, 0, len(seen))
	for a := range seen {
		out = append(out, a)
	}
	sort.Slice(out, func(i, j int) bool { return out[i] < out[j] })
	return out
}

// Digest of the full content.
func (im *Image) Digest() [32]byte {
	h := sha256.New()
	var ab [8]byte
	for _, a := range im.Addrs() {
		b := im.Get(a)
		if isZero(b) {
			continue
		}
		binary.LittleEndian.PutUint64(ab[:], a)
		h.Write(ab[:])
		h.Write(b)
	}
	var out [32]byte
	copy(out[:], h.Sum(nil))
	return out
}

func isZero(b []byte) bool {
	for _, x := range b {
		if x != 0 {
			return false
		}
	}
	return true
}

const (
	EvWrite = iota
	EvBarrier
	EvMark
)

// Event is one entry of the recorded trace.
type Event struct {
	Kind int
	Addr uint64
	Blk  []byte
	Mark string // harness markers: "inv", "ack"
	Op   int
	Arg  int
	Tid  int
}

type Disk struct {
	base   *Image
	delta  [][]byte // indexed by address (a slice: map accesses carry race-detector hooks even in norace code)
	dirty  []uint64
	Log    []Event
	Record bool
	Closed bool
	// ReadsBeforeWrite records addresses read before being written by this
	// instance (used to validate the crash-image canonicalisation).
	TrackReads                 bool
	FirstReads                 map[uint64]bool
	NReads, NWrites, NBarriers int
}

func New(base *Image) *Disk {
	return &Disk{base: base, delta: make([][]byte, base.Size), Record: true}
}

func (d *Disk) Size() uint64 { return d.base.Size }

//go:norace
func (d *Disk) Read(a uint64) []byte {
	vrt.Yield(vrt.PDiskR)
	vrt.DiskEvent(false, false, a)
	return d.read(a)
}

//go:norace
func (d *Disk) read(a uint64) []byte {
	if a >= d.base.Size {
		panic(fmt.Sprintf("vdisk: read of block %d beyond disk size %d", a, d.base.Size))
	}
	d.NReads++
	src := d.delta[a]
	if src == nil {
		src = d.base.Get(a)
		if d.TrackReads {
			if d.FirstReads == nil {
				d.FirstReads = map[uint64]bool{}
			}
			d.FirstReads[a] = true
		}
	}
	out := make([]byte, BlockSize)
	copy(out, src)
	return out
}

//go:norace
func (d *Disk) ReadTo(a uint64, b []byte) {
	copy(b, d.Read(a))
}

//go:norace
func (d *Disk) Write(a uint64, v []byte) {
	vrt.Yield(vrt.PDiskW)
	vrt.DiskEvent(true, false, a)
	d.write(a, v)
}

//go:norace
func (d *Disk) write(a uint64, v []byte) {
	if a >= d.base.Size {
		panic(fmt.Sprintf("vdisk: write of block %d beyond disk size %d", a, d.base.Size))
	}
	if len(v) != BlockSize {
		panic(fmt.Sprintf("vdisk: write of %d bytes", len(v)))
	}
	d.NWrites++
	c := make([]byte, BlockSize)
	copy(c, v)
	if d.delta[a] == nil {
		d.dirty = append(d.dirty, a)
	}
	d.delta[a] = c
	if d.Record {
		d.Log = append(d.Log, Event{Kind: EvWrite, Addr: a, Blk: c, Tid: vrt.CurID()})
	}
}

//go:norace
func (d *Disk) Barrier() {
	vrt.Yield(vrt.PDiskW)
	vrt.DiskEvent(false, true, 0)
	d.NBarriers++
	if d.Record {
		d.Log = append(d.Log, Event{Kind: EvBarrier, Tid: vrt.CurID()})
	}
}

func (d *Disk) Close() { d.Closed = true }

// Mark appends a harness marker to the trace.
//
//go:norace
func (d *Disk) Mark(kind string, op, arg int) {
	if d.Record {
		d.Log = append(d.Log, Event{Kind: EvMark, Mark: kind, Op: op, Arg: arg, Tid: vrt.CurID()})
	}
}

// Snapshot returns the current content as an immutable image (everything
// written so far, as after a clean power-down with all caches flushed).
//
//go:norace
func (d *Disk) Snapshot() *Image {
	m := make(map[uint64][]byte, len(d.dirty))
	for _, a := range d.dirty {
		m[a] = d.delta[a]
	}
	return d.base.With(m)
}

// Peek reads without a scheduling point and without copying (oracles only).
//
//go:norace
func (d *Disk) Peek(a uint64) []byte {
	if b := d.delta[a]; b != nil {
		return b
	}
	return d.base.Get(a)
}

func (d *Disk) Base() *Image { return d.base }
