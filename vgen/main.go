// vgen produces instrumented copies of go-nfsd (from /repo's working tree) and
// go-journal (from the module cache) in which every source of nondeterminism is
// routed through the verif runtime (vrt): sync -> vsync shim, go statements ->
// vsync.Go, time.Now -> vrt.TimeNow, map iteration -> sorted keys.  See
// DESIGN.md section 2.1.  It fails loudly when a site cannot be rewritten.
package main

import (
	"bytes"
	"flag"
	"fmt"
	"go/ast"
	"go/format"
	"go/token"
	"go/types"
	"io"
	"io/fs"
	"os"
	"path/filepath"
	"sort"
	"strings"

	"golang.org/x/tools/go/ast/astutil"
	"golang.org/x/tools/go/packages"
)

const (
	vsyncPath = "github.com/mit-pdos/go-journal/vrt/vsync"
	vrtPath   = "github.com/mit-pdos/go-journal/vrt"
)

var counts = map[string]int{}
var sites []string

func die(f string, a ...interface{}) {
	fmt.Fprintf(os.Stderr, "vgen: "+f+"\n", a...)
	os.Exit(2)
}

func copyTree(src, dst string, skip func(rel string, d fs.DirEntry) bool) {
	err := filepath.WalkDir(src, func(p string, d fs.DirEntry, err error) error {
		if err != nil {
			return err
		}
		rel, _ := filepath.Rel(src, p)
		if rel != "." && skip(rel, d) {
			if d.IsDir() {
				return filepath.SkipDir
			}
			return nil
		}
		t := filepath.Join(dst, rel)
		if d.IsDir() {
			return os.MkdirAll(t, 0o755)
		}
		if !d.Type().IsRegular() {
			return nil
		}
		in, err := os.Open(p)
		if err != nil {
			return err
		}
		defer in.Close()
		out, err := os.OpenFile(t, os.O_CREATE|os.O_TRUNC|os.O_WRONLY, 0o644)
		if err != nil {
			return err
		}
		defer out.Close()
		_, err = io.Copy(out, in)
		return err
	})
	if err != nil {
		die("copy %s: %v", src, err)
	}
}

func main() {
	repo := flag.String("repo", "/repo", "go-nfsd working tree")
	journal := flag.String("journal", "", "go-journal module dir")
	vrtsrc := flag.String("vrt", "", "vrt runtime sources")
	jextra := flag.String("jextra", "", "extra files to add to the go-journal copy")
	out := flag.String("out", "", "output dir")
	flag.Parse()
	if *journal == "" || *vrtsrc == "" || *out == "" {
		die("missing flags")
	}
	os.RemoveAll(*out)
	jdst := filepath.Join(*out, "go-journal")
	ndst := filepath.Join(*out, "go-nfsd")
	copyTree(*journal, jdst, func(rel string, d fs.DirEntry) bool {
		return strings.HasSuffix(rel, "_test.go") || rel == "jrnl_replication" || rel == "txn"
	})
	copyTree(*vrtsrc, filepath.Join(jdst, "vrt"), func(rel string, d fs.DirEntry) bool { return false })
	if *jextra != "" {
		copyTree(*jextra, jdst, func(rel string, d fs.DirEntry) bool { return false })
	}
	copyTree(*repo, ndst, func(rel string, d fs.DirEntry) bool {
		if d.IsDir() {
			switch rel {
			case ".git", "cmd", "bench", "eval", "artifact":
				return true
			}
			return false
		}
		if strings.HasSuffix(rel, "_test.go") {
			return true
		}
		return !(strings.HasSuffix(rel, ".go") || rel == "go.mod" || rel == "go.sum")
	})
	// go.mod of the copies
	gm, err := os.ReadFile(filepath.Join(ndst, "go.mod"))
	if err != nil {
		die("%v", err)
	}
	gm = append(gm, []byte("\nreplace github.com/mit-pdos/go-journal => ../go-journal\n")...)
	os.WriteFile(filepath.Join(ndst, "go.mod"), gm, 0o644)
	// go-journal's own go.mod asks for older goose/marshal versions that are not in the
	// module cache; give the copy go-nfsd's requirements (the versions it is built with
	// inside go-nfsd's module graph anyway).
	var jl []string
	jl = append(jl, "module github.com/mit-pdos/go-journal", "", "go 1.22", "")
	inReq := false
	for _, l := range strings.Split(string(gm), "\n") {
		t := strings.TrimSpace(l)
		switch {
		case strings.HasPrefix(t, "require ("):
			inReq = true
			jl = append(jl, l)
		case inReq && t == ")":
			inReq = false
			jl = append(jl, l)
		case inReq && !strings.Contains(t, "mit-pdos/go-journal"):
			jl = append(jl, l)
		}
	}
	os.WriteFile(filepath.Join(jdst, "go.mod"), []byte(strings.Join(jl, "\n")+"\n"), 0o644)
	// go.sum: union
	js, _ := os.ReadFile(filepath.Join(jdst, "go.sum"))
	ns, _ := os.ReadFile(filepath.Join(ndst, "go.sum"))
	os.WriteFile(filepath.Join(jdst, "go.sum"), append(js, ns...), 0o644)

	rewriteModule(jdst, "github.com/mit-pdos/go-journal", true)
	rewriteModule(ndst, "github.com/mit-pdos/go-nfsd", false)

	// expectations: silent loss of control would make "exhaustive" a lie
	expect := map[string]int{"go-stmt": 3, "map-range": 4, "sync-import": 6, "time-now": 1, "lock-event": 2, "const-var": 2}
	for k, min := range expect {
		if counts[k] < min {
			die("expected at least %d rewrites of kind %s, did %d (sites: %v)", min, k, counts[k], sites)
		}
	}
	sort.Strings(sites)
	var sb strings.Builder
	for _, s := range sites {
		sb.WriteString(s + "\n")
	}
	os.WriteFile(filepath.Join(*out, "SITES.txt"), []byte(sb.String()), 0o644)
	fmt.Printf("vgen: ok %v\n", counts)
}

func rewriteModule(dir, modpath string, isJournal bool) {
	cfg := &packages.Config{
		Mode:       packages.NeedName | packages.NeedFiles | packages.NeedSyntax | packages.NeedTypes | packages.NeedTypesInfo | packages.NeedImports | packages.NeedDeps,
		Dir:        dir,
		BuildFlags: []string{"-tags=verif"},
		Env:        append(os.Environ(), "GOFLAGS=-mod=mod", "GOPROXY=off", "GOSUMDB=off", "GOTOOLCHAIN=local"),
	}
	pkgs, err := packages.Load(cfg, "./...")
	if err != nil {
		die("load %s: %v", dir, err)
	}
	for _, p := range pkgs {
		if len(p.Errors) > 0 {
			die("package %s has errors: %v", p.PkgPath, p.Errors)
		}
		if strings.HasPrefix(p.PkgPath, vrtPath) {
			continue
		}
		for _, f := range p.Syntax {
			fn := p.Fset.Position(f.Pos()).Filename
			if !strings.HasPrefix(fn, dir) {
				die("file %s outside %s", fn, dir)
			}
			if rewriteFile(p, f, fn, isJournal) {
				var buf bytes.Buffer
				if err := format.Node(&buf, p.Fset, f); err != nil {
					die("format %s: %v", fn, err)
				}
				if err := os.WriteFile(fn, buf.Bytes(), 0o644); err != nil {
					die("%v", err)
				}
			}
		}
	}
}

func site(kind, fn string, pos token.Position) {
	counts[kind]++
	sites = append(sites, fmt.Sprintf("%s %s:%d", kind, fn, pos.Line))
}

func rewriteFile(p *packages.Package, f *ast.File, fn string, isJournal bool) bool {
	changed := false
	fset := p.Fset
	rel := fn
	if i := strings.Index(fn, "/gen/"); i >= 0 {
		rel = fn[i+5:]
	}
	needVsync, needVrt := false, false
	hasSync := false
	// (1) import "sync"
	for _, im := range f.Imports {
		switch im.Path.Value {
		case `"sync"`:
			im.Path.Value = fmt.Sprintf("%q", vsyncPath)
			im.Name = ast.NewIdent("sync")
			hasSync = true
			changed = true
			site("sync-import", rel, fset.Position(im.Pos()))
		}
	}
	goName := "GoWorker"
	if isJournal {
		goName = "Go"
	}
	vsyncName := "vsync_"
	if hasSync {
		vsyncName = "sync"
	}
	// (5) const -> var for scalable constants
	for _, d := range f.Decls {
		gd, ok := d.(*ast.GenDecl)
		if !ok || gd.Tok != token.CONST {
			continue
		}
		for _, sp := range gd.Specs {
			vs := sp.(*ast.ValueSpec)
			for _, n := range vs.Names {
				if (p.PkgPath == "github.com/mit-pdos/go-journal/lockmap" && n.Name == "NSHARD") ||
					(p.PkgPath == "github.com/mit-pdos/go-nfsd/fstxn" && n.Name == "ICACHESZ") {
					if len(gd.Specs) != 1 || len(vs.Names) != 1 {
						die("%s: const %s not in a single-spec declaration", rel, n.Name)
					}
					gd.Tok = token.VAR
					if n.Name == "NSHARD" {
						vs.Values = []ast.Expr{&ast.BasicLit{Kind: token.INT, Value: "13"}}
					}
					changed = true
					site("const-var", rel, fset.Position(n.Pos()))
				}
			}
		}
	}
	// (6) lock events
	if p.PkgPath == "github.com/mit-pdos/go-journal/lockmap" {
		for _, d := range f.Decls {
			fd, ok := d.(*ast.FuncDecl)
			if !ok || fd.Recv == nil || (fd.Name.Name != "Acquire" && fd.Name.Name != "Release") {
				continue
			}
			kind := "0"
			if fd.Name.Name == "Release" {
				kind = "1"
			}
			arg := fd.Type.Params.List[0].Names[0].Name
			call := &ast.ExprStmt{X: &ast.CallExpr{
				Fun:  &ast.SelectorExpr{X: ast.NewIdent("vrt_"), Sel: ast.NewIdent("LockEvent")},
				Args: []ast.Expr{&ast.BasicLit{Kind: token.INT, Value: kind}, ast.NewIdent(arg)},
			}}
			if kind == "0" {
				fd.Body.List = append([]ast.Stmt{call}, fd.Body.List...)
			} else {
				// release event after the lock has really been released
				fd.Body.List = append(fd.Body.List, call)
			}
			needVrt = true
			changed = true
			site("lock-event", rel, fset.Position(fd.Pos()))
		}
	}
	// (2) go statements, (3) time.Now, (4) map ranges
	astutil.Apply(f, func(c *astutil.Cursor) bool {
		switch n := c.Node().(type) {
		case *ast.GoStmt:
			lit := &ast.FuncLit{
				Type: &ast.FuncType{Params: &ast.FieldList{}},
				Body: &ast.BlockStmt{List: []ast.Stmt{&ast.ExprStmt{X: n.Call}}},
			}
			c.Replace(&ast.ExprStmt{X: &ast.CallExpr{
				Fun:  &ast.SelectorExpr{X: ast.NewIdent(vsyncName), Sel: ast.NewIdent(goName)},
				Args: []ast.Expr{lit},
			}})
			if !hasSync {
				needVsync = true
			}
			changed = true
			site("go-stmt", rel, fset.Position(n.Pos()))
		case *ast.CallExpr:
			if sel, ok := n.Fun.(*ast.SelectorExpr); ok && sel.Sel.Name == "Now" {
				if id, ok := sel.X.(*ast.Ident); ok {
					if pn, ok := p.TypesInfo.Uses[id].(*types.PkgName); ok && pn.Imported().Path() == "time" {
						n.Fun = &ast.SelectorExpr{X: ast.NewIdent("vrt_"), Sel: ast.NewIdent("TimeNow")}
						needVrt = true
						changed = true
						site("time-now", rel, fset.Position(n.Pos()))
					}
				}
			}
		case *ast.RangeStmt:
			t := p.TypesInfo.TypeOf(n.X)
			if t == nil {
				die("%s: no type for range expression", rel)
			}
			if _, ok := t.Underlying().(*types.Map); !ok {
				return true
			}
			if n.Tok != token.DEFINE || n.Key == nil {
				die("%s:%d: map range in a form vgen cannot rewrite", rel, fset.Position(n.Pos()).Line)
			}
			keyName := "k__"
			if id, ok := n.Key.(*ast.Ident); ok && id.Name != "_" {
				keyName = id.Name
			}
			var pre []ast.Stmt
			if n.Value != nil {
				if id, ok := n.Value.(*ast.Ident); !ok || id.Name != "_" {
					pre = append(pre,
						&ast.AssignStmt{
							Lhs: []ast.Expr{n.Value, ast.NewIdent("ok__")},
							Tok: token.DEFINE,
							Rhs: []ast.Expr{&ast.IndexExpr{X: n.X, Index: ast.NewIdent(keyName)}},
						},
						&ast.IfStmt{
							Cond: &ast.UnaryExpr{Op: token.NOT, X: ast.NewIdent("ok__")},
							Body: &ast.BlockStmt{List: []ast.Stmt{&ast.BranchStmt{Tok: token.CONTINUE}}},
						})
				}
			}
			pre = append(pre, &ast.AssignStmt{Lhs: []ast.Expr{ast.NewIdent("_")}, Tok: token.ASSIGN, Rhs: []ast.Expr{ast.NewIdent(keyName)}})
			n.Body.List = append(pre, n.Body.List...)
			n.Key = ast.NewIdent("_")
			n.Value = ast.NewIdent(keyName)
			n.X = &ast.CallExpr{
				Fun:  &ast.SelectorExpr{X: ast.NewIdent("vrt_"), Sel: ast.NewIdent("SortedKeys")},
				Args: []ast.Expr{n.X},
			}
			needVrt = true
			changed = true
			site("map-range", rel, fset.Position(n.Pos()))
		}
		return true
	}, nil)
	if needVsync {
		astutil.AddNamedImport(fset, f, "vsync_", vsyncPath)
	}
	if needVrt {
		astutil.AddNamedImport(fset, f, "vrt_", vrtPath)
	}
	if changed {
		if !astutil.UsesImport(f, "time") {
			astutil.DeleteImport(fset, f, "time")
		}
	}
	// post-conditions
	ast.Inspect(f, func(n ast.Node) bool {
		if _, ok := n.(*ast.GoStmt); ok {
			die("%s: go statement survived", rel)
		}
		return true
	})
	for _, im := range f.Imports {
		if im.Path.Value == `"sync"` {
			die("%s: sync import survived", rel)
		}
	}
	return changed
}
