#!/bin/bash
cd "$(pwd)"
run() { echo "##### $1"; scripts/seedtest.sh "$@" 2>&1 | tail -3; }
for n in 1 2; do run C09-$n /tmp/wt/out/C09/change$n.diff /tmp/wt/out/C09/demo${n}_test.go nfs C09; done
for n in 1 2; do run C10-$n /tmp/wt/out/C10/change$n.diff /tmp/wt/out/C10/demo${n}_test.go nfs C10; done
for n in 1 2; do run C11-$n /tmp/wt/out/C11/change$n.diff /tmp/wt/out/C11/demo${n}_test.go nfs C11; done
for n in 1 2; do run C13-$n /tmp/wt/out/C13/change$n.diff /tmp/wt/out/C13/demo${n}_test.go nfs C13; done
for n in 1 2; do run C15-$n /tmp/wt/out/C15/change$n.diff /tmp/wt/out/C15/demo${n}_test.go nfs C15; done
for n in 1 2 3; do run C16-$n /tmp/wt/out/C16/change$n.diff /tmp/wt/out/C16/demo${n}_test.go nfstypes C16; done
for n in 1 2 3; do run C17-$n /tmp/wt/out/C17/change$n.diff /tmp/wt/out/C17/demo${n}_test.go simple C17; done
for n in 1 2 3; do run C18-$n /tmp/wt/out/C18/change$n.diff /tmp/wt/out/C18/demo${n}_test.go kvs C18; done
for n in 1 2; do run C19-$n /tmp/wt/out/C19/change$n.diff /tmp/wt/out/C19/demo${n}_test.go nfs C19; done
run C03-2 /tmp/wt/out/C03/change2.diff /tmp/wt/out/C03/demo2_test.go nfs C03
for n in 1 2; do run C12-$n /tmp/wt/out/C12/change$n.diff /tmp/wt/out/C12/demo${n}_test.go nfs C12; done
for n in 1 2; do SEED_RACE=1 run C14-$n /tmp/wt/out/C14/change$n.diff /tmp/wt/out/C14/demo${n}_test.go nfs C14; done
echo ALLDONE
