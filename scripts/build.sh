#!/bin/bash
# Regenerate the instrumented copies from /repo's current working tree and
# rebuild the checker.  Usage: build.sh [race]
set -e
V="$(cd "$(dirname "$0")/.." && pwd)"
export GOFLAGS=-mod=mod GOPROXY=off GOSUMDB=off GOTOOLCHAIN=local
REPO="${VERIF_REPO:-/repo}"
mkdir -p "$V/.build" "$V/engine/bin"
exec 9>"$V/.build/lock"
flock 9
JDIR="$(cd "$REPO" && go list -m -f '{{.Dir}}' github.com/mit-pdos/go-journal)"
STAMP="$( (cd "$REPO" && find . -path ./.git -prune -o \( -name '*.go' -o -name go.mod -o -name go.sum \) -type f -print0 | sort -z | xargs -0 sha256sum; cd "$V" && find vgen engine/vrtsrc jextra -type f -print0 | sort -z | xargs -0 sha256sum; echo "$JDIR") | sha256sum | cut -d' ' -f1)"
if [ ! -f "$V/.build/gen/STAMP" ] || [ "$(cat "$V/.build/gen/STAMP")" != "$STAMP" ]; then
  if [ ! -x "$V/.build/vgen" ] || [ -n "$(find "$V/vgen" -newer "$V/.build/vgen" -type f)" ]; then
    (cd "$V/vgen" && go build -o "$V/.build/vgen" .)
  fi
  "$V/.build/vgen" -repo "$REPO" -journal "$JDIR" -vrt "$V/engine/vrtsrc" -jextra "$V/jextra" -out "$V/.build/gen" >&2
  cat "$REPO/go.sum" "$JDIR/go.sum" | sort -u > "$V/engine/go.sum.new"
  if ! cmp -s "$V/engine/go.sum.new" "$V/engine/go.sum"; then mv "$V/engine/go.sum.new" "$V/engine/go.sum"; else rm "$V/engine/go.sum.new"; fi
  echo "$STAMP" > "$V/.build/gen/STAMP"
fi
cd "$V/engine"
go build -tags verif -o bin/vcheck ./cmd/vcheck
if [ "$1" = race ]; then
  go build -race -tags verif -o bin/vcheck-race ./cmd/vcheck
fi
