#!/bin/bash
# round 11 of sub-agent changes (and re-runs of round 10); usage: runseeds18.sh <stream>   (run from a copy of /verif; results go to /verif/seeded)
cd "$(dirname "$0")/.."
run() { echo "##### $1"; scripts/seedtest.sh "$@" 2>&1 | tail -3; }
dd() { head -1 "$1" | sed 's|// dir: *||'; }
one() { local name=$1 a=$2 n=$3; shift 3; run $name $O/$a/change$n.diff $O/$a/demo${n}_test.go $(dd $O/$a/demo${n}_test.go) "$@"; }
O=/verif/seeded/_incoming/round11
case "$1" in
A) one R11-C04-1 A 1 C04; one R11-C04-2 A 2 C04; one R11-C05-3 A 3 C05; one R11-C05-4 A 4 C05;;
B) one R11-C13-1 B 1 C13; one R11-C13-2 B 2 C13; one R11-C19-3 B 3 C19; one R11-C19-4 B 4 C19;;
C) SEED_RACE=1 one R11-C14-1 C 1 C14; SEED_RACE=1 one R11-C14-2 C 2 C14; one R11-C03-3 C 3 C03;;
D) one R11-C17-1 D 1 C17; one R11-C17-2 D 2 C17; one R11-C18-3 D 3 C18; one R11-C18-4 D 4 C18;;
R) O=/verif/seeded/_incoming/round10; one R10-C03-2 B 2 C03; one R10-C11-1 F 1 C11; one R10-C10-3 E 3 C10;;
esac
echo ALLDONE $1
