#!/bin/bash
# seedtest.sh <name> <change.diff> <demo_test.go> <demo-dir-in-repo> <checks...>
# 1. confirms in a scratch worktree that the change compiles, the suite passes, the demo fails with it and passes without;
# 2. applies it to /repo, runs the listed checks (quick), reverts; writes /verif/seeded/<name>/{patch.diff,demo_test.go,meta.json}
set -u
V="$(cd "$(dirname "$0")/.." && pwd)"
NAME="$1"; DIFF="$2"; DEMO="$3"; DDIR="$4"; shift 4
export GOFLAGS=-mod=mod GOPROXY=off GOSUMDB=off GOTOOLCHAIN=local
WT=/tmp/wt/verify-$NAME; mkdir -p /tmp/wt
git -C /repo worktree remove --force "$WT" >/dev/null 2>&1
git -C /repo worktree add -q "$WT" HEAD || exit 2
OUT=/verif/seeded/$NAME; mkdir -p "$OUT"
cp "$DIFF" "$OUT/patch.diff"; cp "$DEMO" "$OUT/demo_test.go"
R_APPLY=fail; R_SUITE=fail; R_DEMO_WITH=unknown; R_DEMO_WITHOUT=unknown
cd "$WT"
cp "$DEMO" "$DDIR/zz_seed_demo_test.go"
DT=$(grep -o 'func Test[A-Za-z0-9_]*' "$DDIR/zz_seed_demo_test.go" | sed 's/func //' | paste -sd'|')
DT="($DT)"
RACEFLAG=""; if [ -n "${SEED_RACE:-}" ]; then RACEFLAG="-race"; fi
if timeout 900 go test $RACEFLAG -vet=off -count=1 -run "^$DT\$" ./$DDIR >/tmp/wt/$NAME.without.log 2>&1; then R_DEMO_WITHOUT=pass; else R_DEMO_WITHOUT=fail; fi
rm "$DDIR/zz_seed_demo_test.go"
if git apply "$DIFF" 2>/tmp/wt/$NAME.apply.log; then R_APPLY=ok
  if go build ./... >/dev/null 2>&1 && go test -vet=off -count=1 -timeout 25m ./... >/tmp/wt/$NAME.suite.log 2>&1; then R_SUITE=pass; fi
  cp "$DEMO" "$DDIR/zz_seed_demo_test.go"
  if timeout 900 go test $RACEFLAG -vet=off -count=1 -run "^$DT\$" ./$DDIR >/tmp/wt/$NAME.with.log 2>&1; then R_DEMO_WITH=pass; else R_DEMO_WITH=fail; fi
fi
cd "$V"
git -C /repo worktree remove --force "$WT" >/dev/null 2>&1
CHK="{}"
if [ "$R_APPLY" = ok ]; then
  # run the checks against a scratch worktree with the change applied (VERIF_REPO), so that /repo itself
  # and any background run reading it stay untouched
  WT2=/tmp/wt/apply-$NAME
  git -C /repo worktree remove --force "$WT2" >/dev/null 2>&1
  git -C /repo worktree add -q "$WT2" HEAD && git -C "$WT2" apply "$DIFF" || { echo "cannot apply"; exit 2; }
  CHK="{"
  for c in "$@"; do
    o=$(VERIF_REPO="$WT2" timeout 3000 scripts/check.sh $c quick 2>&1)
    rc=$?
    sigs=$(echo "$o" | grep -E "^  signature:" | head -4 | sed 's/^  signature: //; s/"/\\"/g' | tr '\n' ';')
    CHK="$CHK\"$c\": {\"exit\": $rc, \"signatures\": \"$sigs\"},"
    echo "  $c exit=$rc $sigs"
  done
  CHK="${CHK%,}}"
  git -C /repo worktree remove --force "$WT2" >/dev/null 2>&1
fi
cat > "$OUT/meta.json" <<EOT
{"name": "$NAME", "demo_dir": "$DDIR", "demo_test": "$DT", "applies": "$R_APPLY", "suite_with_change": "$R_SUITE", "demo_with_change": "$R_DEMO_WITH", "demo_without_change": "$R_DEMO_WITHOUT", "checks_quick": $CHK}
EOT
cat "$OUT/meta.json"
