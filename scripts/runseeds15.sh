#!/bin/bash
# round 8 of sub-agent changes; usage: runseeds15.sh <stream>   (run from a copy of /verif; results go to /verif/seeded)
cd "$(dirname "$0")/.."
run() { echo "##### $1"; scripts/seedtest.sh "$@" 2>&1 | tail -3; }
O=/verif/seeded/_incoming/round8
dd() { head -1 "$1" | sed 's|// dir: *||'; }
one() { # name agent n checks...
  local name=$1 a=$2 n=$3; shift 3
  run $name $O/$a/change$n.diff $O/$a/demo${n}_test.go $(dd $O/$a/demo${n}_test.go) "$@"
}
case "$1" in
B) one R8-C02-1 B 1 C02 C10; one R8-C02-2 B 2 C02 C13; one R8-C02-3 B 3 C02; for n in 4 5 6; do one R8-C12-$n B $n C12; done;;
C) for n in 1 2 3; do one R8-C05-$n C $n C05; done; one R8-C09-4 C 4 C09; one R8-C09-5 C 5 C09 C10; one R8-C09-6 C 6 C09 C05;;
D) for n in 1 2 3; do one R8-C08-$n D $n C08; done; for n in 4 5 6; do one R8-C10-$n D $n C10; done;;
A) for n in 1 2 3; do one R8-C01-$n A $n C01; done; for n in 4 5 6; do one R8-C07-$n A $n C07; done;;
E) for n in 1 2 3; do one R8-C11-$n E $n C11; done; for n in 4 5 6; do one R8-C03-$n E $n C03; done;;
esac
echo ALLDONE $1
