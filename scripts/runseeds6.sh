#!/bin/bash
# round 3 of sub-agent changes
cd "$(pwd)"
run() { echo "##### $1"; scripts/seedtest.sh "$@" 2>&1 | tail -3; }
O=/tmp/wt/out3
run R3-C11-1 $O/A/change1.diff $O/A/demo1_test.go nfs C11 C06
run R3-C11-2 $O/A/change2.diff $O/A/demo2_test.go nfs C11 C19
run R3-C19-3 $O/A/change3.diff $O/A/demo3_test.go nfs C19 C02
run R3-C19-4 $O/A/change4.diff $O/A/demo4_test.go nfs C19
run R3-C15-5 $O/A/change5.diff $O/A/demo5_test.go nfs C15
run R3-C15-6 $O/A/change6.diff $O/A/demo6_test.go nfs C15
for n in 1 2 3 4 5; do run R3-C16-$n $O/B/change$n.diff $O/B/demo${n}_test.go nfstypes C16; done
for n in 6 7 8; do run R3-C13-$n $O/B/change$n.diff $O/B/demo${n}_test.go nfs C13; done
for n in 1 2 3 4 5; do run R3-C17-$n $O/C/change$n.diff $O/C/demo${n}_test.go simple C17; done
for n in 6 7 8; do run R3-C18-$n $O/C/change$n.diff $O/C/demo${n}_test.go kvs C18; done
echo ALLDONE
