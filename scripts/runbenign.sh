#!/bin/bash
# behaviour-preserving changes (seeded/_incoming/round8/F) against the quick checks closest to them:
# every check must exit 0 (development aid, not a check).  usage: runbenign.sh <verif-copy> [n...]
V="$1"; shift
export GOFLAGS=-mod=mod GOPROXY=off GOSUMDB=off GOTOOLCHAIN=local VERIF_BUDGET_S=${VERIF_BUDGET_S:-240}
B=/verif/seeded/_incoming/round8/F
declare -A M=( [1]="C19 C02" [2]="C07 C10" [3]="C13 C02" [4]="C13 C02 C04" [5]="C05 C01 C04" [6]="C10 C03" [7]="C07 C10" [8]="C02 C08 C09" [9]="C06 C03 C08" [10]="C14 C06" )
NS="${@:-1 2 3 4 5 6 7 8 9 10}"
mkdir -p /tmp/wt/ben
for n in $NS; do
  WT=/tmp/wt/benign-$n
  git -C /repo worktree remove --force $WT >/dev/null 2>&1
  git -C /repo worktree add -q $WT HEAD && git -C $WT apply $B/benign$n.diff || { echo "benign$n does-not-apply" >> /tmp/wt/ben/results.txt; git -C /repo worktree remove --force $WT; continue; }
  for c in ${M[$n]}; do
    (cd $V && VERIF_REPO=$WT scripts/check.sh $c quick) > /tmp/wt/ben/b$n.$c.log 2>&1
    echo "benign$n $c exit=$? $(grep -c '^VIOLATION' /tmp/wt/ben/b$n.$c.log) violations; $(grep -E '^  signature:' /tmp/wt/ben/b$n.$c.log | head -2 | tr '\n' ';')" >> /tmp/wt/ben/results.txt
  done
  git -C /repo worktree remove --force $WT >/dev/null 2>&1
done
echo BENDONE >> /tmp/wt/ben/results.txt
