module mutate

go 1.22
