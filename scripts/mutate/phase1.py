#!/usr/bin/env python3
# phase 1 of the mechanical mutation campaign (development aid): which mutants survive the repository's own tests
# usage: phase1.py <workers> <file>...   (files relative to the repository root)
import subprocess, sys, os, json, threading, queue
ENV=dict(os.environ, GOFLAGS='-mod=mod', GOPROXY='off', GOSUMDB='off', GOTOOLCHAIN='local')
MUT='/tmp/wt/mutate'; OUT='/tmp/wt/mut'
nw=int(sys.argv[1]); files=sys.argv[2:]
def sh(cmd, cwd, timeout=None):
    try:
        p=subprocess.run(cmd, cwd=cwd, env=ENV, stdout=subprocess.PIPE, stderr=subprocess.STDOUT, timeout=timeout)
        return p.returncode, p.stdout.decode(errors='replace')
    except subprocess.TimeoutExpired:
        return 124, 'timeout'
# reverse dependencies
rc,o=sh(['go','list','-f','{{.ImportPath}} {{join .Deps " "}} {{join .TestImports " "}}','./...'],'/repo')
rev={}
for l in o.splitlines():
    parts=l.split()
    if not parts or not parts[0].startswith('github.com/mit-pdos/go-nfsd'): continue
    for d in parts:
        rev.setdefault(d,set()).add(parts[0])
def pkgs_for(f):
    p='github.com/mit-pdos/go-nfsd/'+os.path.dirname(f)
    s=set(rev.get(p,[]))|{p}
    # transitive through test imports is approximated by one more round
    for q in list(s): s|=rev.get(q,set())
    s={x for x in s if '/cmd' not in x and '/bench' not in x and '/eval' not in x}
    return sorted(s)
jobs=queue.Queue()
done=set()
if os.path.exists(OUT+'/phase1.jsonl'):
    for l in open(OUT+'/phase1.jsonl'):
        r=json.loads(l); done.add((r['file'],r['k']))
for f in files:
    rc,o=sh([MUT,'-file','/repo/'+f,'-count'],'/repo')
    for k in range(int(o.strip())):
        if (f,k) not in done: jobs.put((f,k))
lock=threading.Lock()
def worker(i):
    wt=f'/tmp/wt/mw{i}'
    sh(['git','-C','/repo','worktree','remove','--force',wt],'/repo')
    sh(['git','-C','/repo','worktree','add','-q',wt,'HEAD'],'/repo')
    while True:
        try: f,k=jobs.get_nowait()
        except queue.Empty: break
        sh(['git','checkout','--','.'],wt)
        rc,desc=sh([MUT,'-file',f,'-n',str(k),'-out',f],wt)
        desc=desc.strip()
        res='?'
        if rc!=0: res='nomutant'
        elif 'DPrintf' in open(os.path.join('/repo',f)).read().splitlines()[int(desc.split(':')[1].split()[0])-1]: res='skip-debug'
        else:
            rc,o=sh(['go','build','./...'],wt,300)
            if rc!=0: res='nocompile'
            else:
                rc,o=sh(['go','test','-vet=off','-count=1','-timeout','150s']+pkgs_for(f),wt,400)
                res='survived' if rc==0 else 'killed'
        if res=='survived':
            rc,d=sh(['git','diff'],wt)
            name=f.replace('/','_')+f'-{k}'
            open(f'{OUT}/surv/{name}.diff','w').write(d)
        with lock:
            open(OUT+'/phase1.jsonl','a').write(json.dumps({'file':f,'k':k,'desc':desc,'res':res})+'\n')
    sh(['git','-C','/repo','worktree','remove','--force',wt],'/repo')
ts=[threading.Thread(target=worker,args=(i,)) for i in range(nw)]
[t.start() for t in ts]; [t.join() for t in ts]
print('phase1 done')
