// mutate: mechanical mutants of one Go source file (development aid for finding gaps in the checks).
//   mutate -file f.go -count          prints the number of mutation points
//   mutate -file f.go -n K -out g.go  writes the K-th mutant and prints a one-line description
package main

import (
	"bytes"
	"flag"
	"fmt"
	"go/ast"
	"go/format"
	"go/parser"
	"go/token"
	"os"
	"strconv"
)

var swap = map[token.Token]token.Token{
	token.LSS: token.LEQ, token.LEQ: token.LSS, token.GTR: token.GEQ, token.GEQ: token.GTR,
	token.EQL: token.NEQ, token.NEQ: token.EQL, token.ADD: token.SUB, token.SUB: token.ADD,
	token.LAND: token.LOR, token.LOR: token.LAND, token.ADD_ASSIGN: token.SUB_ASSIGN, token.SUB_ASSIGN: token.ADD_ASSIGN,
	token.MUL: token.QUO, token.QUO: token.MUL, token.REM: token.QUO,
}

func main() {
	file := flag.String("file", "", "")
	n := flag.Int("n", -1, "")
	out := flag.String("out", "", "")
	count := flag.Bool("count", false, "")
	flag.Parse()
	fset := token.NewFileSet()
	f, err := parser.ParseFile(fset, *file, nil, parser.ParseComments)
	if err != nil {
		fmt.Fprintln(os.Stderr, err)
		os.Exit(2)
	}
	idx := 0
	desc := ""
	hit := func(pos token.Pos, what string) bool {
		me := idx
		idx++
		if me == *n {
			desc = fmt.Sprintf("%s:%d %s", *file, fset.Position(pos).Line, what)
			return true
		}
		return false
	}
	var visit func(n ast.Node) bool
	visit = func(nd ast.Node) bool {
		switch x := nd.(type) {
		case *ast.BinaryExpr:
			if t, ok := swap[x.Op]; ok {
				if hit(x.OpPos, fmt.Sprintf("%s -> %s", x.Op, t)) {
					x.Op = t
				}
			}
			// second relational mutant: < -> >= style negation is covered by branch negation below
		case *ast.AssignStmt:
			if t, ok := swap[x.Tok]; ok {
				if hit(x.TokPos, fmt.Sprintf("%s -> %s", x.Tok, t)) {
					x.Tok = t
				}
			}
		case *ast.IfStmt:
			if hit(x.If, "if cond -> !cond") {
				x.Cond = &ast.UnaryExpr{Op: token.NOT, X: &ast.ParenExpr{X: x.Cond}}
			}
			if hit(x.If, "if cond -> false") {
				x.Cond = &ast.BinaryExpr{X: &ast.ParenExpr{X: x.Cond}, Op: token.LAND, Y: ast.NewIdent("false")}
			}
		case *ast.BlockStmt:
			for i, s := range x.List {
				switch st := s.(type) {
				case *ast.ExprStmt:
					if _, ok := st.X.(*ast.CallExpr); ok {
						if hit(st.Pos(), "call statement deleted") {
							x.List[i] = &ast.EmptyStmt{Semicolon: st.Pos(), Implicit: false}
						}
					}
				case *ast.IncDecStmt:
					if hit(st.Pos(), "inc/dec deleted") {
						x.List[i] = &ast.EmptyStmt{Semicolon: st.Pos()}
					}
				case *ast.AssignStmt:
					// field or index assignment deleted (plain identifiers would leave unused variables)
					if st.Tok == token.ASSIGN && len(st.Lhs) == 1 {
						switch st.Lhs[0].(type) {
						case *ast.SelectorExpr, *ast.IndexExpr:
							if hit(st.Pos(), "field/index assignment deleted") {
								x.List[i] = &ast.AssignStmt{Lhs: []ast.Expr{ast.NewIdent("_")}, Tok: token.ASSIGN, Rhs: st.Rhs}
							}
						}
					}
				}
			}
		case *ast.BasicLit:
			if x.Kind == token.INT {
				if v, err := strconv.ParseUint(x.Value, 0, 64); err == nil {
					if hit(x.Pos(), fmt.Sprintf("literal %d -> %d", v, v+1)) {
						x.Value = strconv.FormatUint(v+1, 10)
					}
					if v > 0 {
						if hit(x.Pos(), fmt.Sprintf("literal %d -> %d", v, v-1)) {
							x.Value = strconv.FormatUint(v-1, 10)
						}
					}
				}
			}
		}
		return true
	}
	ast.Inspect(f, visit)
	if *count {
		fmt.Println(idx)
		return
	}
	if desc == "" {
		fmt.Fprintln(os.Stderr, "no such mutant")
		os.Exit(3)
	}
	var buf bytes.Buffer
	if err := format.Node(&buf, fset, f); err != nil {
		fmt.Fprintln(os.Stderr, err)
		os.Exit(2)
	}
	os.WriteFile(*out, buf.Bytes(), 0o644)
	fmt.Println(desc)
}
