#!/usr/bin/env python3
# phase 2 of the mechanical mutation campaign (development aid): run the quick checks that belong to the mutated
# package against every mutant that survived the repository's tests; stop at the first check that reports it.
# usage: phase2.py <verif-copy> [prefix-filter]
import subprocess, sys, os, json, glob
V=sys.argv[1]; flt=sys.argv[2] if len(sys.argv)>2 else ''
OUT='/tmp/wt/mut'
ENV=dict(os.environ, GOFLAGS='-mod=mod', GOPROXY='off', GOSUMDB='off', GOTOOLCHAIN='local', VERIF_BUDGET_S='200')
MAP=[('simple_',['C17']),('kvs_',['C18']),('super_',['C15','C02']),('fh_',['C08','C11']),('cache_',['C10','C03']),
     ('dcache_',['C02','C10']),('dir_',['C02','C13','C10','C04']),('inode_shrink',['C04','C05','C12','C10']),('inode_',['C02','C12','C04','C05']),
     ('alloctxn_',['C05','C09','C15']),('fstxn_',['C10','C09','C05','C01']),('shrinker_',['C05','C12','C03']),
     ('nfs_nfs_ops',['C02','C19','C13','C11','C08','C09','C07']),('nfs_nfs_ls',['C13','C02']),('nfs_lorder',['C06','C03']),('nfs_mount',['C11','C02']),('nfs_nfs.go',['C15','C02','C07','C05'])]
done={}
if os.path.exists(OUT+'/phase2.jsonl'):
    for l in open(OUT+'/phase2.jsonl'):
        r=json.loads(l); done[r['name']]=r
wt='/tmp/wt/m2wt'
for d in sorted(glob.glob(OUT+'/surv/*.diff')):
    name=os.path.basename(d)[:-5]
    if flt and not name.startswith(flt): continue
    if name in done: continue
    checks=next((c for p,c in MAP if name.startswith(p)),None)
    if not checks: continue
    subprocess.run(['git','-C','/repo','worktree','remove','--force',wt],capture_output=True)
    subprocess.run(['git','-C','/repo','worktree','add','-q',wt,'HEAD'],check=True)
    subprocess.run(['git','-C',wt,'apply',d],check=True)
    res={}; caught=None; sig=''
    for c in checks:
        p=subprocess.run([V+'/scripts/check.sh',c,'quick'],env=dict(ENV,VERIF_REPO=wt),stdout=subprocess.PIPE,stderr=subprocess.STDOUT)
        o=p.stdout.decode(errors='replace'); res[c]=p.returncode
        if p.returncode==1:
            caught=c; sig=next((l.strip() for l in o.splitlines() if l.startswith('  signature:')),'')
            break
        if p.returncode not in (0,1): sig='exit%d: %s'%(p.returncode,o[-300:])
    desc=open(d).read()
    open(OUT+'/phase2.jsonl','a').write(json.dumps({'name':name,'res':res,'caught':caught,'sig':sig})+'\n')
    print(name,res,caught,sig[:150],flush=True)
subprocess.run(['git','-C','/repo','worktree','remove','--force',wt],capture_output=True)
print('phase2 done')
