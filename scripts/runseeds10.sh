#!/bin/bash
# refresh of the round-4 changes whose checks were strengthened after their first run
cd "$(pwd)"
run() { echo "##### $1"; scripts/seedtest.sh "$@" 2>&1 | tail -3; }
O=/tmp/wt/out4
run R4-C07-2 $O/A/change2.diff $O/A/demo2_test.go nfs C07 C01
run R4-C07-3 $O/A/change3.diff $O/A/demo3_test.go nfs C07
run R4-C12-4 $O/A/change4.diff $O/A/demo4_test.go nfs C12 C05
run R4-C12-6 $O/A/change6.diff $O/A/demo6_test.go nfs C12
run R4-C05-2 $O/C/change2.diff $O/C/demo2_test.go nfs C05
run R4-C08-5 $O/C/change5.diff $O/C/demo5_test.go nfs C08 C05
run R4-C08-6 $O/C/change6.diff $O/C/demo6_test.go nfs C08 C11
run R4-C10-1 $O/B/change1.diff $O/B/demo1_test.go nfs C10 C05
run R4-C10-2 $O/B/change2.diff $O/B/demo2_test.go nfs C10 C05
run R4-C03-1 $O/D/change1.diff $O/D/demo1_test.go nfs C03
run R4-C03-2 $O/D/change2.diff $O/D/demo2_test.go nfs C03
run R4-C03-3 $O/D/change3.diff $O/D/demo3_test.go nfs C03 C12
export SEED_RACE=1
run R4-C14-5 $O/D/change5.diff $O/D/demo5_test.go nfs C14
run R4-C14-6 $O/D/change6.diff $O/D/demo6_test.go nfs C14
echo ALLDONE
