#!/bin/bash
# Per-check entry: regenerate from /repo's working tree, rebuild, run, write evidence.
# Usage: check.sh <Cxx> <quick|thorough>
V="$(cd "$(dirname "$0")/.." && pwd)"
ID="$1"; TIER="${2:-quick}"
RACE=""
if [ "$ID" = C14 ]; then RACE=race; fi
mkdir -p "$V/.build"
if ! "$V/scripts/build.sh" $RACE >"$V/.build/build.$ID.log" 2>&1; then
  # a tree that does not build cannot be checked: report as machinery error (exit 2), never a verdict
  mkdir -p "$V/.build"; tail -30 "$V/.build/build.$ID.log" >&2
  echo "BUILD FAILED for $ID (see $V/.build/build.$ID.log)" >&2
  exit 2
fi
cd "$V"
exec "$V/engine/bin/vcheck" run "$ID" "$TIER"
