#!/bin/bash
# MANIFEST.setup_cmd: build the framework offline from files on disk only.
set -e
cd "$(dirname "$0")/.."
exec scripts/build.sh
