#!/bin/bash
# refresh of the seeded changes whose checks were strengthened after their first run
cd "$(pwd)"
run() { echo "##### $1"; scripts/seedtest.sh "$@" 2>&1 | tail -3; }
O=/tmp/wt/out3
run R3-C11-1 $O/A/change1.diff $O/A/demo1_test.go nfs C11 C06
run R3-C11-2 $O/A/change2.diff $O/A/demo2_test.go nfs C11 C19
run R3-C15-6 $O/A/change6.diff $O/A/demo6_test.go nfs C15
run R3-C13-8 $O/B/change8.diff $O/B/demo8_test.go nfs C13
run R3-C17-4 $O/C/change4.diff $O/C/demo4_test.go simple C17
O=/tmp/wt/out2
run R2-C01-1 $O/C01/change1.diff $O/C01/demo1_test.go nfs C01 C05
run R2-C04-2 $O/C04/change2.diff $O/C04/demo2_test.go nfs C04 C05
echo ALLDONE
