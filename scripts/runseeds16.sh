#!/bin/bash
# round 9 of sub-agent changes; usage: runseeds16.sh <stream>   (run from a copy of /verif; results go to /verif/seeded)
cd "$(dirname "$0")/.."
run() { echo "##### $1"; scripts/seedtest.sh "$@" 2>&1 | tail -3; }
O=/verif/seeded/_incoming/round9
dd() { head -1 "$1" | sed 's|// dir: *||'; }
one() { local name=$1 a=$2 n=$3; shift 3; run $name $O/$a/change$n.diff $O/$a/demo${n}_test.go $(dd $O/$a/demo${n}_test.go) "$@"; }
case "$1" in
A) one R9-C04-1 A 1 C04; one R9-C04-2 A 2 C04; one R9-C06-3 A 3 C06; one R9-C06-4 A 4 C06;;
B) one R9-C13-1 B 1 C13; one R9-C13-2 B 2 C13 C02; one R9-C19-3 B 3 C19; one R9-C19-4 B 4 C19 C11;;
C) export SEED_RACE=1; one R9-C14-1 C 1 C14; one R9-C14-2 C 2 C14; unset SEED_RACE; one R9-C15-3 C 3 C15; one R9-C15-4 C 4 C15;;
D) one R9-C17-1 D 1 C17; one R9-C17-2 D 2 C17; one R9-C18-3 D 3 C18; one R9-C18-4 D 4 C18;;
esac
echo ALLDONE $1
