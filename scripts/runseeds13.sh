#!/bin/bash
# round 6 of sub-agent changes
cd "$(pwd)"
run() { echo "##### $1"; scripts/seedtest.sh "$@" 2>&1 | tail -3; }
O=/tmp/wt/out6
for n in 1 2 3; do run R6-C03-$n $O/A/change$n.diff $O/A/demo${n}_test.go nfs C03; done
for n in 4 5 6; do run R6-C10-$n $O/A/change$n.diff $O/A/demo${n}_test.go nfs C10 C05; done
for n in 1 2 3; do run R6-C05-$n $O/B/change$n.diff $O/B/demo${n}_test.go nfs C05; done
for n in 4 5 6; do run R6-C09-$n $O/B/change$n.diff $O/B/demo${n}_test.go nfs C09; done
for n in 1 2 3; do run R6-C07-$n $O/C/change$n.diff $O/C/demo${n}_test.go nfs C07; done
for n in 4 5 6; do run R6-C12-$n $O/C/change$n.diff $O/C/demo${n}_test.go nfs C12; done
for n in 1 2 3; do run R6-C08-$n $O/D/change$n.diff $O/D/demo${n}_test.go nfs C08; done
for n in 1 2 3; do run R6-C01-$n $O/E/change$n.diff $O/E/demo${n}_test.go nfs C01; done
run R6-C02-4 $O/E/change4.diff $O/E/demo4_test.go nfs C02 C12
run R6-C02-5 $O/E/change5.diff $O/E/demo5_test.go nfs C02 C08
run R6-C02-6 $O/E/change6.diff $O/E/demo6_test.go nfs C02 C04
export SEED_RACE=1
for n in 4 5 6; do run R6-C14-$n $O/D/change$n.diff $O/D/demo${n}_test.go nfs C14; done
echo ALLDONE
