#!/bin/bash
# round 10 of sub-agent changes; usage: runseeds17.sh <stream>   (run from a copy of /verif; results go to /verif/seeded)
cd "$(dirname "$0")/.."
run() { echo "##### $1"; scripts/seedtest.sh "$@" 2>&1 | tail -3; }
O=/verif/seeded/_incoming/round10
dd() { head -1 "$1" | sed 's|// dir: *||'; }
one() { local name=$1 a=$2 n=$3; shift 3; run $name $O/$a/change$n.diff $O/$a/demo${n}_test.go $(dd $O/$a/demo${n}_test.go) "$@"; }
case "$1" in
A) one R10-C16-1 A 1 C16; one R10-C16-2 A 2 C16; one R10-C02-3 A 3 C02; one R10-C02-4 A 4 C02;;
B) one R10-C03-1 B 1 C03; one R10-C03-2 B 2 C03; one R10-C12-3 B 3 C12; one R10-C12-4 B 4 C12;;
C) one R10-C09-1 C 1 C09; one R10-C09-2 C 2 C09; one R10-C05-3 C 3 C05; one R10-C05-4 C 4 C05;;
D) one R10-C01-1 D 1 C01; one R10-C01-2 D 2 C01; one R10-C08-3 D 3 C08; one R10-C08-4 D 4 C08;;
E) one R10-C07-1 E 1 C07; one R10-C07-2 E 2 C07; one R10-C10-3 E 3 C10; one R10-C10-4 E 4 C10;;
F) one R10-C11-1 F 1 C11; one R10-C11-2 F 2 C11; one R10-C06-3 F 3 C06; one R10-C06-4 F 4 C06;;
esac
echo ALLDONE $1
