#!/bin/bash
# round 5 of sub-agent changes, sets D (C15 C19) and E (C17 C18)
cd "$(pwd)"
run() { echo "##### $1"; scripts/seedtest.sh "$@" 2>&1 | tail -3; }
O=/tmp/wt/out5
run R5-C15-1 $O/D/change1.diff $O/D/demo1_test.go nfs C15 C05
run R5-C15-2 $O/D/change2.diff $O/D/demo2_test.go nfs C15
run R5-C15-3 $O/D/change3.diff $O/D/demo3_test.go nfs C15
run R5-C19-4 $O/D/change4.diff $O/D/demo4_test.go nfs C19 C10
run R5-C19-5 $O/D/change5.diff $O/D/demo5_test.go nfs C19
run R5-C19-6 $O/D/change6.diff $O/D/demo6_test.go nfs C19 C02
for n in 1 2 3; do run R5-C17-$n $O/E/change$n.diff $O/E/demo${n}_test.go simple C17; done
for n in 4 5 6; do run R5-C18-$n $O/E/change$n.diff $O/E/demo${n}_test.go kvs C18; done
echo ALLDONE
