#!/bin/bash
# round 5 of sub-agent changes, sets A (C01 C04), B (C02 C06), C (C11 C13)
cd "$(pwd)"
run() { echo "##### $1"; scripts/seedtest.sh "$@" 2>&1 | tail -3; }
O=/tmp/wt/out5
for n in 1 2 3; do run R5-C01-$n $O/A/change$n.diff $O/A/demo${n}_test.go nfs C01 C07; done
for n in 4 5 6; do run R5-C04-$n $O/A/change$n.diff $O/A/demo${n}_test.go nfs C04 C10; done
for n in 1 2 3; do run R5-C02-$n $O/B/change$n.diff $O/B/demo${n}_test.go nfs C02; done
for n in 4 5 6; do run R5-C06-$n $O/B/change$n.diff $O/B/demo${n}_test.go nfs C06; done
run R5-C11-1 $O/C/change1.diff $O/C/demo1_test.go nfs C11 C04
run R5-C11-2 $O/C/change2.diff $O/C/demo2_test.go nfs C11 C06
run R5-C11-3 $O/C/change3.diff $O/C/demo3_test.go nfs C11
for n in 4 5 6; do run R5-C13-$n $O/C/change$n.diff $O/C/demo${n}_test.go nfs C13; done
echo ALLDONE
