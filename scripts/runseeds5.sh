#!/bin/bash
# re-run of the round-2 changes that were first missed, after the checks were strengthened
cd "$(pwd)"
run() { echo "##### $1"; scripts/seedtest.sh "$@" 2>&1 | tail -3; }
O=/tmp/wt/out2
run R2-C01-1 $O/C01/change1.diff $O/C01/demo1_test.go nfs C01 C05
run R2-C01-2 $O/C01/change2.diff $O/C01/demo2_test.go nfs C01
run R2-C03-1 $O/C03/change1.diff $O/C03/demo1_test.go nfs C03
run R2-C03-2 $O/C03/change2.diff $O/C03/demo2_test.go nfs C03
run R2-C06-4 $O/C03/change4.diff $O/C03/demo4_test.go nfs C06
run R2-C04-1 $O/C04/change1.diff $O/C04/demo1_test.go nfs C09 C04
run R2-C04-2 $O/C04/change2.diff $O/C04/demo2_test.go nfs C04 C05
run R2-C05-3 $O/C04/change3.diff $O/C04/demo3_test.go nfs C05 C12
run R2-C12-6 $O/C04/change6.diff $O/C04/demo6_test.go nfs C12 C05
run R2-C02-1 $O/C02/change1.diff $O/C02/demo1_test.go nfs C02 C12
run R2-C10-4 $O/C02/change4.diff $O/C02/demo4_test.go nfs C10
run R2-C08-6 $O/C02/change6.diff $O/C02/demo6_test.go nfs C08
run R2-C10-7 $O/C02/change7.diff $O/C02/demo7_test.go nfs C10 C02
echo ALLDONE
