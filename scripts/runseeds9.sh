#!/bin/bash
# round 4 of sub-agent changes, set B (C10 C09)
cd "$(pwd)"
run() { echo "##### $1"; scripts/seedtest.sh "$@" 2>&1 | tail -3; }
O=/tmp/wt/out4
run R4-C10-1 $O/B/change1.diff $O/B/demo1_test.go nfs C10 C15
run R4-C10-2 $O/B/change2.diff $O/B/demo2_test.go nfs C10 C05
run R4-C10-3 $O/B/change3.diff $O/B/demo3_test.go nfs C10 C02
run R4-C09-4 $O/B/change4.diff $O/B/demo4_test.go nfs C09 C10
run R4-C09-5 $O/B/change5.diff $O/B/demo5_test.go nfs C09 C10
run R4-C09-6 $O/B/change6.diff $O/B/demo6_test.go nfs C09 C10
echo ALLDONE
