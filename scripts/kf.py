#!/usr/bin/env python3
# Maintain /verif/known_findings.json (never written by a check at run time).
# usage: kf.py add <replay.json> "<what fails>"   |  kf.py list
import json,sys,os
P='/verif/known_findings.json'
ks=json.load(open(P)) if os.path.exists(P) else []
if sys.argv[1]=='add':
    d=json.load(open(sys.argv[2]))
    e={"property":d["property"],"signature":d["signature"],"what_fails":sys.argv[3],"status":"known"}
    if not any(k["property"]==e["property"] and k["signature"]==e["signature"] for k in ks):
        ks.append(e)
    json.dump(ks,open(P,'w'),indent=1)
elif sys.argv[1]=='list':
    for k in ks: print(k["status"],k["property"],k["signature"],'--',k["what_fails"])
