#!/usr/bin/env python3
# Builds /verif/seeded/RESULTS.md from the meta.json files written by seedtest.sh
import json,glob,os
rows=[]
for f in sorted(glob.glob('/verif/seeded/*/meta.json')):
    try: m=json.load(open(f))
    except Exception as e:
        rows.append((os.path.basename(os.path.dirname(f)),'meta.json unreadable','','','',''))
        continue
    chk=m.get('checks_quick',{})
    det=[c for c,v in chk.items() if v.get('exit')==1]
    miss=[c for c,v in chk.items() if v.get('exit')==0]
    other=[f"{c}:exit{v.get('exit')}" for c,v in chk.items() if v.get('exit') not in (0,1)]
    valid = m.get('applies')=='ok' and m.get('suite_with_change')=='pass' and m.get('demo_with_change')=='fail' and m.get('demo_without_change')=='pass'
    sig=''
    for c in det:
        sig=chk[c].get('signatures','').split(';')[0]
        break
    note=''
    nf=os.path.join(os.path.dirname(f),'NOTE.md')
    if os.path.exists(nf): note=open(nf).read().strip().replace('\n',' ')
    rows.append((m['name'],'yes' if valid else f"NO (applies={m.get('applies')} suite={m.get('suite_with_change')} demo_with={m.get('demo_with_change')} demo_without={m.get('demo_without_change')})",
                 ', '.join(det) or '-', ', '.join(miss+other) or '-', sig, note))
out=['# Seeded changes (produced by sub-agents from the property text alone) and which checks catch them','',
'Each directory holds `patch.diff`, `demo_test.go` (fails with the change, passes without) and `meta.json` (what was run).',
'"confirmed" = applies to the current tree, the repository\'s 34 tests still pass with it, the demonstration fails with it and passes without it.','',
'| change | confirmed | caught by (quick) | not caught by | first signature | note |','|---|---|---|---|---|---|']
for r in rows:
    out.append('| '+' | '.join(x.replace('|','\\|') for x in r)+' |')
open('/verif/seeded/RESULTS.md','w').write('\n'.join(out)+'\n')
print('\n'.join(out[-len(rows):]))
