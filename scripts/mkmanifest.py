#!/usr/bin/env python3
# Generates MANIFEST.json from the table below (claimed checks) - keeps the file valid at all times.
import json, subprocess
ALL=[f"C{i:02d}" for i in range(1,20)]
CLAIMED={
 "C17": dict(
   text="The simple server against a 30-file x 4096-byte specification: every request sequence to the tier's depth over boundary-dense inode numbers, offsets, counts, data lengths and sizes (replies incl. eof flag and final contents); every crash image of every mutating history recovered with simple.Recover under two schedules (prefix containing every acknowledged request; keeps serving); all schedules within the deviation bound of 2-3 clients on one file with a brute-force linearizability check; and a crash in the middle of a concurrent execution: every crash image of every schedule's recorded trace against the requests acknowledged before the cut (reads included), any subset of the pending ones and the contents after recovery.",
   note="Trusted: the specification written from the property text; Disk contract; scheduler shim. Workers under ulimit -v. Bounds: depth 2/3, alphabet, three concurrent harnesses, deviation bound 2/3.",
   technique="explicit-state search over request sequences + crash-image enumeration + deviation-bounded schedule exploration of the implementation against a specification",
   ref="DESIGN.md 4 (C17)"),
 "C16": dict(
   text="For each of the 140 Xdr-able types: a baseline and every value within 1-2 deviations (every optional/list shape, every discriminant value incl. undeclared, boundary lengths and integers) is encoded with nfstypes and with go-rpcgen's independent rfc1813 codec generated from the RFC's .x file - bytes, decoded values and re-encodings must agree; every prefix, extension and word substitution of the encodings is offered to both decoders; hand-derived golden vectors pin the primitive layout; all 22+6 procedure numbers are driven through the registration tables with a recording stub.",
   note="Trusted: go-rpcgen's rfc1813 package and xdr helper library (shared by both codecs, hence the golden vectors); the RPC message header and record marking are go-rpcgen's rfc1057 server, outside go-nfsd. Mutated decoding is skipped for the two MOUNT result types with an unbounded word array. cmd/go-nfsd/main.go's RegisterMany call is not executed (needs rpcbind); the tables it passes are.",
   technique="bounded-exhaustive enumeration of values and byte strings with differential comparison against an independent codec",
   ref="DESIGN.md 4 (C16)"),
 "C11": dict(
   text="Per procedure the full Cartesian product of boundary domains for every argument (18 handle shapes, 13 names, 11 offsets/sizes up to 2^64-1, counts with agreeing and disagreeing data lengths, cookies, limits, enum values incl. illegal ones; RENAME/LINK over all handle pairs) in five file-system states (populated with recycled inodes, tiny full disk, maximal sparse file, inode table exhausted but for two numbers, a directory moved into another parent), and every truncation / extension / 32-bit word substitution of the XDR argument bytes of one valid request per procedure (22 NFS + 6 MOUNT) fed through the registered rpcgen handlers; every request meets the named state on a fresh server instance (snapshot), cold and with warm caches, under the controlled scheduler: it must return (no panic, no deadlock, at most 400000 scheduling points) and a sanity script must succeed on the same instance afterwards.",
   note="Replaces the property's coverage-guided fuzzing sub-clause (a sampling technique) by bounded-exhaustive mutation of the message bytes. Workers run under ulimit -v 16 GB; RPC header handling by go-rpcgen's rfc1057 server is outside go-nfsd and not exercised. Bounds: the boundary domains; one valid message per procedure.",
   technique="bounded-exhaustive input enumeration (argument products and byte-level mutants) on the implementation under a controlled scheduler",
   ref="DESIGN.md 4 (C11)"),
 "C19": dict(
   text="Limits are read from the server's FSINFO/PATHCONF replies; for every limit the requests at limit-1, limit, limit+1 and at the extremes (name lengths in four procedures, write counts at three offsets on two file shapes, file sizes/offsets up to 2^64-1, read sizes) are issued on a large disk: at or below the limit complete success (no short count) that reads back also after a restart; beyond it a clean error without effect or consumption; fsck; all space returns afterwards.",
   note="Trusted: reference model with the announced limits plugged in. Bounds: the boundary value sets; one scenario per value, plus forty names at the limit in one directory (looked up and re-created after a restart).",
   technique="bounded-exhaustive enumeration of boundary inputs on the implementation against the reference model parameterised by the announced limits",
   ref="DESIGN.md 4 (C19)"),
 "C15": dict(
   text="Every disk size in dense ranges around the smallest accepted size and around three bitmap-block boundaries (plus the sizes the tests and CLI use): layout regions adjacent/inside/equal to an independent computation; fresh image bitmaps exact; fsck; the disk is filled completely through WRITEs, every data block must be owned and none outside, then everything is deleted and the free counts must return.",
   note="Trusted: fsck and the independent layout arithmetic. The allocator/bitmap audit also runs after every short write of the fill. Bounds: the size ranges; quick fills only sizes < 1700, +-2 around each boundary and the two large sizes (thorough fills all).",
   technique="bounded-exhaustive enumeration of configurations (disk sizes) on the implementation with structural oracles",
   ref="DESIGN.md 4 (C15)"),
 "C13": dict(
   text="For every directory shape of a list (empty, freed slots, block boundaries, long names; 300 and - thorough - 17000 entries with a short list of limits) every READDIR count in a dense range and a READDIRPLUS dircount x maxcount grid are enumerated with the client loop; completeness, no duplicates, no phantoms, progress, termination, and agreement of ids/handles/attributes with LOOKUP+GETATTR; every returned cookie re-used; a mutation (add / remove listed / remove unlisted) at every page boundary of the multi-page limits.",
   note="Trusted: reference model for ids/handles/attributes. Names of 4, 111 and 112 (= name_max) bytes. Bounds: dense grids for shapes up to 70 entries (step 8 away from thresholds; 80-call cap), a short list of limits for the big shapes (call cap = number of entries), mutation only between calls (during a call: C03 harness readdirplus-create-remove).",
   technique="bounded-exhaustive enumeration of inputs (limits, cookies, mutation points) against the implementation with a set-based oracle",
   ref="DESIGN.md 4 (C13)"),
 "C12": dict(
   text="Block-recycling search on disks with 12 and 40 data blocks (every freed block is reused at once): breadth-first over fills with recognisable patterns, truncations to aligned/unaligned sizes, growth, partial writes, writes past the end, removal, re-creation, restart; every file read in full after every transition and compared byte for byte with the reference; plus every crash image of the recycling histories (files, symbolic links, directories), recovered and compared byte-exactly with the prefix states; a search from a file of 506 blocks of data (the in-transaction free may stop a few blocks early); plus crash images of truncations of a 530-block file freed by several background transactions, after which every surviving file is written across / far beyond its end, grown and read.",
   note="Trusted: reference model bytes. On a full disk a READ of a hole may return short (materialising the hole needs a block) and a WRITE may be short; both are tolerated as implementation-only failures as long as the bytes returned are right. The zero-scan of free blocks is not a verdict (mechanism, not property). Bounds: depth, two files, pattern alphabet.",
   technique="explicit-state search + crash-image enumeration of the implementation with a byte-exact reference oracle",
   ref="DESIGN.md 4 (C12)"),
 "C09": dict(
   text="Differential exhaustive check without expected values: on disks with 1..N free blocks and a large one, in every state reached by a bounded building sequence, every request of a list of candidates that fail part-way is issued; if it returns an error, dump (incl. handles), the inodes and directory entries on the logical disk (link counts, generations, sizes, slots), free counts, fsck, reclaim and cache audits must equal those of the run without it, and every bounded suffix of further operations (incl. restart) must reply and end identically.",
   note="Trusted: determinism of the controlled executions (the two runs differ only by the failed request; server-chosen times and inode numbers are excluded from the suffix comparison). Bounds: building depth plus named deeper states (full directory block, full disk), candidate list incl. transactions that fail only at commit, suffix length, disk sizes; the inode table exhausted (32765 files built through the API, cloned per run) in three variants; suffixes there only in the thorough tier.",
   technique="explicit-state differential search over operation sequences of the implementation (run with vs without the failing request)",
   ref="DESIGN.md 4 (C09)"),
 "C08": dict(
   text="Breadth-first search over create/remove/rename-over/restart/crash-restart cycles with immediate inode-number reuse; in every state every handle ever issued (live or dead) is used in every procedure and every handle position; dead handles must answer STALE/BADHANDLE and change nothing, live handles must denote the bound object, new handles must never repeat; a dead handle is also paired with the live handle of the same inode number; a second search over directory-over-directory renames and removals of directories with REMOVE and RMDIR; a third from the state with the inode table exhausted (numbers come only from removals, the next-fit allocator wraps).",
   note="Trusted: reference model's handle binding. Bounds: depth (the inode-exhaustion search: 2 quick / 4 thorough), two directories, a few names; in the exhausted state the per-handle probes leave out the 32757 bulk files that no operation of the alphabet names.",
   technique="explicit-state search over operation sequences of the implementation with an exhaustive handle/procedure probe in every state",
   ref="DESIGN.md 4 (C08)"),
 "C10": dict(
   text="In every state of a breadth-first search (namespace alphabet + macro-operations exceeding the inode cache and spanning directory blocks + refused operations + hole-filling reads; inode cache at 100 and scaled to 6; the server's own Crash() during a background free as a symbol; further searches from the inode-exhausted state, on a disk with 10 free blocks and from a state with a 700-block file) the exact client-visible dump of the running server is compared with a server recovered from the disk image at that point and with a clean restart on the same disk, and caches/allocators are audited against the logical disk.",
   note="Trusted: ExactDump covers everything a client can observe through the procedures used (GETATTR, READ, READLINK, READDIR, READDIRPLUS, LOOKUP); file contents within the probe windows for the sparse file. Bounds: depth, alphabet; fstxn.ICACHESZ scaled to 6 in the second search.",
   technique="explicit-state search over operation sequences of the implementation with a differential (running vs restarted vs recovered) oracle",
   ref="DESIGN.md 4 (C10)"),
 "C05": dict(
   text="Reclaim audit (marked in use == reachable from the root; in-memory allocators == on-disk bitmaps; free counts return to the fresh values after delete-everything) in every state of a breadth-first search over a build/delete alphabet with background frees run to completion under the scheduler; on every crash image of histories that free a 530-block file in several background transactions, after the property's touch/reuse procedure (two variants: touch with SETATTR and reuse inode numbers; delete everything first); a second search on a disk with 10 free blocks, a third from the inode-exhausted state (a directory of 1024 blocks freed in the background), a fourth from a state with a 700-block file (rename over it, truncations, the server's own Crash() half-way, reuse); and at the end of every schedule of the concurrent-free harnesses.",
   note="Trusted: fsck decoders; scheduler-based waiting for shrinkers (no sleeping). Bounds: depth, alphabet, 2200/3000-block disks, image cap per history in quick (exhaustive:false), deviation bound.",
   technique="explicit-state search + crash-image enumeration + schedule exploration of the implementation with a reachability/bitmap audit as invariant",
   ref="DESIGN.md 4 (C05)"),
 "C04": dict(
   text="An independent fsck (own decoders, log-aware) is the only oracle of three exhaustive explorations: every state of a breadth-first search over a namespace/data alphabet extended with directory renames, REMOVE/SETATTR on directories and background frees; the final state of every schedule of the C03 harnesses within the bound; the logical disk of every crash image of the C01 crash histories and of the multi-transaction free of a 530-block file; a second search over writes/truncations at every indirection boundary; multi-block directories reduced to one survivor; searches from a directory of 40 maximal-length names and from nested directories (stored link counts show when the parent is removed after a restart).",
   note="Trusted: fsck's own reading of the on-disk format (little-endian inode/dirent layout, circular log header). Bounds: as C02/C03/C01 at the tier's depths; capped loss enumeration reported as exhaustive:false.",
   technique="explicit-state search + schedule exploration + crash-image enumeration of the implementation with a structural invariant (fsck) evaluated in every state/image",
   ref="DESIGN.md 4 (C04)"),
 "C14": dict(
   text="The C03 harnesses plus shutdown / Crash() while a shrinker runs or a request helps it, and statistics during RPCs, every schedule within the deviation bound, executed in a -race build whose scheduler hands control between goroutines without creating a happens-before edge, so that the Go race detector judges each explored execution with exactly the program's own synchronisation.",
   note="Trusted: the Go race detector (happens-before races only); the //go:norace hand-off (workers run with GOMAXPROCS=1). A report counts when both access stacks are in go-nfsd/go-journal code. Bounds: harness set, deviation bound 1/2. Replaces the property's free-running stress sub-clause by bounded-exhaustive schedules.",
   technique="deviation-bounded schedule exploration of the implementation under a controlled scheduler, Go race detector as per-execution oracle",
   ref="DESIGN.md 4 (C14)"),
 "C03": dict(
   text="About 30 harnesses of 2-3 client threads on the real server (journal logger/installer and shrinker included) explored exhaustively within a deviation bound under a cooperative scheduler that owns every mutex, condition variable, goroutine and disk operation; every complete execution is checked for linearizability (replies incl. post-op attributes and listings, final dump) against the reference file system by brute force; final-state fsck and cache/allocator audit.",
   note="Trusted: the scheduler shim; race-freedom of the harnesses (C14) for the happens-before state caching (cross-checked against an uncached search on two harnesses in every run); reference model. Bounds: 2-3 clients with 1-3 RPCs, each harness gets a fair share of the time budget (harnesses with long background frees are cut short in quick: exhaustive:false), deviation bound 1 (quick) / 2 (thorough): a deviation = preempting a runnable thread or running a journal daemon while a client could run.",
   technique="stateless deviation-bounded schedule exploration of the implementation (controlled scheduler) with happens-before state caching and a linearizability oracle",
   ref="DESIGN.md 4 (C03)"),
 "C06": dict(
   text="(a) explicit-state search over requests whose inodes coincide or are ordered arbitrarily: a single client never waits on itself or exceeds the horizon; (b) lock-acquisition traces of every probe operation in states with inverted inode numbers and cold caches, every opposite-order pair run concurrently under all schedules within the bound - only a real deadlock schedule counts; a search over repeated truncation and re-growth (shrinker threads accumulate; the state key counts live shrinker threads); (c) deadlock and horizon (livelock) verdicts of all schedules within one deviation of the C03 harnesses with renames, inverted inode numbers or background frees. Deadlocks are identified by the call sites on the wait-for cycle.",
   note="Trusted: scheduler shim; lock events woven into the go-journal copy's lockmap. Bounds: depth, probe alphabet, four named states plus all states of a shape search of depth 2/3 (warm and cold caches), deviation bound 2/3, horizon 400000 scheduling points.",
   technique="explicit-state search + predictive lock-order analysis confirmed by deviation-bounded schedule exploration of the implementation",
   ref="DESIGN.md 4 (C06)"),
 "C01": dict(
   text="Every history to the tier's depth over a 17-symbol crash alphabet is run on the real server on a recording disk; every crash image (every cut of the write/barrier trace x every loss choice of un-barriered writes, full product up to the cap per epoch) is checked with an independent fsck and recovered with the real MakeNfs under two schedules; the recovered tree must equal the reference after a prefix containing every stably acknowledged operation; then allocator/cache audit, further operations (incl. writes across and far beyond the end of every surviving file), dump and fsck.",
   note="Trusted: Disk contract (atomic block writes; Barrier persists all earlier writes), reference model, the canonical image key (home blocks + header + live log entries). Bounds: history depth, alphabet, loss product cap (capped epochs fall back to <=2 deviations + issue-order prefixes and are reported exhaustive:false), two background policies and two recovery schedules rather than all schedules; a second crash during recovery (nested, loss cap 16) for the single-operation histories in quick and all histories in thorough.",
   technique="crash-image enumeration over recorded disk traces of all bounded operation histories, recovery by the implementation, reference-model prefix oracle",
   ref="DESIGN.md 4 (C01)"),
 "C07": dict(
   text="Every history to the tier's depth over UNSTABLE/DATA_SYNC/FILE_SYNC writes, COMMITs and metadata operations, option on and off: immediate read-back, committed level, verifier constancy; every crash image recovered and compared with the prefix states allowed by the acknowledgement order; clean restart without COMMIT.",
   note="Trusted: as C01. A single client, so acknowledgement order = issue order. Bounds: depth, two files, alphabet of 23 symbols (incl. rewrites of the same bytes with a stronger stability level and SETATTR of times alone).",
   technique="crash-image enumeration + explicit-state search over operation sequences of the implementation",
   ref="DESIGN.md 4 (C07)"),
 "C02": dict(
   text="Explicit-state breadth-first search over operation sequences on the real server against a reference file system: namespace/data alphabet (about 40 symbols; with and without the unstable option; once more through the XDR/dispatch path), name lengths 0..256, and offsets/sizes at every block and indirection boundary up to the announced maximum; after every transition the reply, an observation sweep with every read-only procedure, and a full-tree dump incl. handles are compared.",
   note="Trusted: the reference model (reffs) and its stated tolerance points (DESIGN.md Appendix A); state key = model + installed disk + allocator cursors + inode cache (log position is abstracted away). A RESTART is a clean shutdown without flush or idle time (after a COMMIT if unstable writes are outstanding). Further searches from a directory of 40 maximal-length names and from a two-block directory reduced to one survivor. Bounds: depth, alphabets, two directories and a handful of names. The transport path is covered by a third namespace search in which every request is XDR-encoded, dispatched by procedure number through the server's registration table and the XDR reply decoded (fsx.XDRProxy); go-rpcgen's RPC header/record marking in front of it is not exercised.",
   technique="explicit-state search over operation sequences of the implementation with a reference-model oracle",
   ref="DESIGN.md 4 (C02)"),
 "C18": dict(
   text="Bounded-exhaustive model checking of the real kvs package: every operation sequence to the tier's depth against a map, every crash image (all cuts x all losses of un-barriered writes, nested crash in recovery) of every put history recovered by the real MkKVS, every schedule within the deviation bound of 3-client harnesses checked for linearizability, and a crash in the middle of a concurrent execution (every crash image of every schedule's trace against the acknowledged and pending puts and the recovered store).",
   note="Trusted: the cooperative scheduler shim (vsync) models sync.Mutex/Cond faithfully; Disk contract (atomic block writes, Barrier persists everything); lockmap.NSHARD scaled to 13. Bounds: depth, alphabet, deviation bound, capped loss enumeration for epochs with hundreds of pending blocks (reported exhaustive:false).",
   technique="explicit-state search over operation sequences + crash-image enumeration + deviation-bounded schedule exploration of the implementation",
   ref="DESIGN.md 4 (C18)"),
}
def main():
    hooks=[]
    try:
        out=subprocess.run(["git","-C","/repo","log","--format=%H %s"],capture_output=True,text=True).stdout
        hooks=[l.split()[0] for l in out.splitlines() if " verif hooks" in l or "verif hook" in l]
    except Exception: pass
    m={"version":1,"setup_cmd":"scripts/setup.sh",
     "hooks":{"guard":"verif","enable":"scripts/build.sh: vgen copies /repo's working tree (including //go:build verif files) to /verif/.build/gen and the checker is built with -tags verif","baseline_off_cmd":"cd /repo && GOFLAGS=-mod=mod go test -vet=off -count=1 -timeout 25m ./...","source_commits":hooks,"add_only":True},
     "engines":[
      {"name":"vrt+explore (E1)","path":"engine/vrtsrc, engine/explore","serves_properties":["C03","C06","C14","C17","C18"],"kind_free_text":"cooperative scheduler owning every goroutine/mutex/cond/disk operation of the instrumented real code; depth-first search over choice sequences with deviation (preemption) bounding and happens-before state caching"},
      {"name":"vdisk+crash (E2)","path":"engine/vdisk, engine/crash","serves_properties":["C01","C04","C05","C07","C12","C17","C18"],"kind_free_text":"recording copy-on-write disk; enumeration of every crash image (cut x loss pattern of un-barriered writes) with recovery by the real code"},
      {"name":"sequence search (E3/E4)","path":"engine/checks","serves_properties":["C02","C04","C05","C08","C09","C10","C11","C12","C13","C15","C16","C19"],"kind_free_text":"bounded-exhaustive enumeration of operation sequences / argument products on the real server against reference models"}],
     "checks":[],"not_applicable":[],"notes":"see DESIGN.md"}
    for i in ALL:
        if i in CLAIMED:
            c=CLAIMED[i]
            m["checks"].append({"property_id":i,"quick_cmd":f"scripts/check.sh {i} quick","thorough_cmd":f"scripts/check.sh {i} thorough",
              "evidence_file":f"/verif/evidence/{i}.json","replay_cmd_template":"engine/bin/vcheck replay {path}","engine":"engine/cmd/vcheck",
              "level_claimed":{"category":"model_checking","text":c["text"],"design_ref":c["ref"]},"level_note":c["note"],"technique":c["technique"]})
        else:
            m["not_applicable"].append({"property_id":i,"reason":"check not built yet (work in progress; will be claimed once its check passes on the unchanged tree)"})
    json.dump(m,open("/verif/MANIFEST.json","w"),indent=1)
main()
