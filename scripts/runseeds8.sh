#!/bin/bash
# round 4 of sub-agent changes (C07 C12 / C05 C08 / C03 C14)
cd "$(pwd)"
run() { echo "##### $1"; scripts/seedtest.sh "$@" 2>&1 | tail -3; }
O=/tmp/wt/out4
for n in 1 2 3; do run R4-C07-$n $O/A/change$n.diff $O/A/demo${n}_test.go nfs C07 C01; done
run R4-C12-4 $O/A/change4.diff $O/A/demo4_test.go nfs C12 C05
run R4-C12-5 $O/A/change5.diff $O/A/demo5_test.go nfs C12 C02
run R4-C12-6 $O/A/change6.diff $O/A/demo6_test.go nfs C12
run R4-C05-1 $O/C/change1.diff $O/C/demo1_test.go nfs C05 C15
run R4-C05-2 $O/C/change2.diff $O/C/demo2_test.go nfs C05
run R4-C05-3 $O/C/change3.diff $O/C/demo3_test.go nfs C05 C01
for n in 4 5 6; do run R4-C08-$n $O/C/change$n.diff $O/C/demo${n}_test.go nfs C08; done
run R4-C03-1 $O/D/change1.diff $O/D/demo1_test.go nfs C03 C04
run R4-C03-2 $O/D/change2.diff $O/D/demo2_test.go nfs C03
run R4-C03-3 $O/D/change3.diff $O/D/demo3_test.go nfs C03 C12
export SEED_RACE=1
for n in 4 5 6; do run R4-C14-$n $O/D/change$n.diff $O/D/demo${n}_test.go nfs C14; done
echo ALLDONE
