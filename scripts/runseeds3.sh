#!/bin/bash
# re-run of the seeded changes that the first version of a check missed, after the check was strengthened
cd "$(pwd)"
run() { echo "##### $1"; scripts/seedtest.sh "$@" 2>&1 | tail -3; }
run C02-1 /tmp/wt/out/C02/change1.diff /tmp/wt/out/C02/demo1_test.go nfs C02 C12
run C04-1 /tmp/wt/out/C04/change1.diff /tmp/wt/out/C04/demo1_test.go nfs C04
run C04-2 /tmp/wt/out/C04/change2.diff /tmp/wt/out/C04/demo2_test.go nfs C04
run C09-2 /tmp/wt/out/C09/change2.diff /tmp/wt/out/C09/demo2_test.go nfs C09
run C10-1 /tmp/wt/out/C10/change1.diff /tmp/wt/out/C10/demo1_test.go nfs C10 C02
run C16-1 /tmp/wt/out/C16/change1.diff /tmp/wt/out/C16/demo1_test.go nfstypes C16
run C16-2 /tmp/wt/out/C16/change2.diff /tmp/wt/out/C16/demo2_test.go nfstypes C16
run C17-1 /tmp/wt/out/C17/change1.diff /tmp/wt/out/C17/demo1_test.go simple C17
run C17-2 /tmp/wt/out/C17/change2.diff /tmp/wt/out/C17/demo2_test.go simple C17
echo ALLDONE
