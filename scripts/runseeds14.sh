#!/bin/bash
# round 7 of sub-agent changes
cd "$(pwd)"
run() { echo "##### $1"; scripts/seedtest.sh "$@" 2>&1 | tail -3; }
O=/tmp/wt/out7
for n in 1 2 3; do run R7-C04-$n $O/A/change$n.diff $O/A/demo${n}_test.go nfs C04; done
for n in 4 5 6; do run R7-C06-$n $O/A/change$n.diff $O/A/demo${n}_test.go nfs C06; done
for n in 1 2 3; do run R7-C13-$n $O/B/change$n.diff $O/B/demo${n}_test.go nfs C13; done
for n in 4 5 6; do run R7-C16-$n $O/B/change$n.diff $O/B/demo${n}_test.go nfstypes C16; done
run R7-C15-1 $O/C/change1.diff $O/C/demo1_test.go nfs C15
run R7-C15-2 $O/C/change2.diff $O/C/demo2_test.go nfs C15 C05
run R7-C15-3 $O/C/change3.diff $O/C/demo3_test.go nfs C15 C05
for n in 4 5 6; do run R7-C19-$n $O/C/change$n.diff $O/C/demo${n}_test.go nfs C19; done
for n in 1 2 3; do run R7-C17-$n $O/E/change$n.diff $O/E/demo${n}_test.go simple C17; done
for n in 4 5 6; do run R7-C18-$n $O/E/change$n.diff $O/E/demo${n}_test.go kvs C18; done
for n in 1 2 3; do run R7-C03-$n $O/D/change$n.diff $O/D/demo${n}_test.go nfs C03; done
export SEED_RACE=1
for n in 4 5 6; do run R7-C14-$n $O/D/change$n.diff $O/D/demo${n}_test.go nfs C14; done
echo ALLDONE
