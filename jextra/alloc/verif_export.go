package alloc

// VerifBitmap returns a copy of the in-memory bitmap (added to the instrumented
// copy of go-journal by vgen; not part of go-journal).
func (a *Alloc) VerifBitmap() []byte {
	a.mu.Lock()
	b := append([]byte{}, a.bitmap...)
	a.mu.Unlock()
	return b
}

func (a *Alloc) VerifNext() uint64 {
	a.mu.Lock()
	n := a.next
	a.mu.Unlock()
	return n
}
